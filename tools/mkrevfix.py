#!/usr/bin/env python3
"""Appends section 8.1 (reverted fixes) to DESIGN.md from /verif/seeded/revfix/*.json."""
import json, glob
rows=[]
for f in sorted(glob.glob('/verif/seeded/revfix/*.json')):
    m=json.load(open(f))
    if not m.get('reverted'):
        res='not evaluated: '+m.get('reason','')
    elif m.get('quick_exit')==1:
        res='reported: '+(m.get('classes') or '')[:160]
    else:
        res='NOT reported by the quick tier'
    rows.append((m['fix'],m['property'],m['defect'].split(';')[0][:170].replace('|','/'),res.replace('|','/')))
n=len(rows); ev=[r for r in rows if not r[3].startswith('not evaluated')]; c=sum(1 for r in ev if r[3].startswith('reported'))
out=['\n### 8.1 The repaired defects, put back one at a time\n',
'`tools/revfix.sh` reverts each `fix:` commit of /repo in the working tree (never committed), runs the quick check of the property',
'under which the defect is recorded in `known_findings.txt`, and restores the tree. This asks whether the quick tier alone would',
'report the defect again if it came back (several were first found by a thorough batch or by reading code).',
f'{c} of {len(ev)} evaluated reverts are reported ({n-len(ev)} reverse patches no longer apply because later fixes touch the same lines).\n',
'| fix | check | defect | quick tier |','|---|---|---|---|']
for r in rows: out.append(f'| {r[0]} | {r[1]} | {r[2]} | {r[3]} |')
out.append('')
s=open('/verif/DESIGN.md').read()
i=s.find('\n### 8.1 The repaired defects')
if i>=0: s=s[:i]
open('/verif/DESIGN.md','w').write(s.rstrip('\n')+'\n'+'\n'.join(out)+'\n')
print(c,'of',len(ev),'evaluated;',n,'fixes')
