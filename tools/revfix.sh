#!/bin/bash
# usage: revfix.sh [hash...]
# Sensitivity against the defects this work repaired: each "fixed:" line of known_findings.txt names a fix commit of
# /repo and the property whose check found the defect. The commit is reverted in the working tree (never committed),
# the quick check of that property is run, and the tree is restored. A defect whose return the quick tier does not
# report is a blind spot of the quick tier (the thorough tier found it once).
# Results: /verif/seeded/revfix/<hash>.json and the log of the check.
set -u
out=/verif/seeded/revfix; mkdir -p "$out"
cd /repo && git diff --quiet || { echo "/repo is dirty, refusing"; exit 2; }
want=("$@")
grep '^fixed:' /verif/known_findings.txt | while read -r _ propkv hash rest; do
  prop=${propkv#property=}
  if [ ${#want[@]} -gt 0 ]; then
    case " ${want[*]} " in *" $hash "*) ;; *) continue ;; esac
  fi
  [ -f "$out/$hash-$prop.json" ] && [ ${#want[@]} -eq 0 ] && continue
  if ! git -C /repo show "$hash" -- . ':!*_test.go' | git -C /repo apply -R 2>"$out/$hash.applyerr"; then
    echo "$hash $prop: revert does not apply (later fixes touch the same lines)"
    python3 - "$hash" "$prop" "$rest" <<'PY'
import json,sys
h,p,rest=sys.argv[1:4]
json.dump({"fix":h,"property":p,"defect":rest,"reverted":False,"reason":"the reverse patch no longer applies: later fixes touch the same lines"},open(f"/verif/seeded/revfix/{h}-{p}.json","w"),indent=1)
PY
    git -C /repo checkout -q -- .
    continue
  fi
  rm -f "$out/$hash.applyerr"
  (cd "${CHECK_DIR:-/verif}" && ./check "$prop" quick > "$out/$hash-$prop.log" 2>&1); rc=$?
  git -C /repo checkout -q -- .
  nv=$(grep -c '^VIOLATION' "$out/$hash-$prop.log")
  classes=$(grep -A1 '^VIOLATION' "$out/$hash-$prop.log" | grep 'class=' | sed 's/ run_index.*//; s/^ *class=//' | sort -u | head -4 | paste -sd';')
  echo "$hash $prop: exit=$rc violations=$nv $classes"
  python3 - "$hash" "$prop" "$rest" "$rc" "$nv" "$classes" <<'PY'
import json,sys
h,p,rest,rc,nv,cl=sys.argv[1:7]
json.dump({"fix":h,"property":p,"defect":rest,"reverted":True,"quick_exit":int(rc),"violations":int(nv),"classes":cl},open(f"/verif/seeded/revfix/{h}-{p}.json","w"),indent=1)
PY
  # keep the log small
  tail -c 20000 "$out/$hash-$prop.log" > "$out/$hash-$prop.log.t" && mv "$out/$hash-$prop.log.t" "$out/$hash-$prop.log"
done
git -C /repo status --short
