#!/usr/bin/env python3
"""Regenerates section 8 of DESIGN.md (sensitivity table) from /verif/seeded/*/meta.json."""
import json, glob, os, re
rows=[]
for d in sorted(glob.glob('/verif/seeded/*/')):
    if not os.path.exists(d+'meta.json'): continue
    m=json.load(open(d+'meta.json'))
    res=m.get('check_results','')
    caught=[]
    for part in res.split():
        mm=re.match(r'(C\d+):exit=(\d+):violations=(\d+)',part)
        if mm and mm.group(2)=='1': caught.append(mm.group(1))
    first=m.get('first_result','')
    rows.append((m['id'],m['breaks_property'],m.get('what_the_change_does','').replace('|','/'),m.get('needs_to_manifest','').replace('|','/'),', '.join(caught) or 'none', m.get('strengthened','')))
out=['## 8. Sensitivity: property-breaking changes and which check catches them\n',
'Each change below was written by an independent sub-agent that was given only the text of one property and its own',
'scratch worktree (nothing from /verif). Before a change was kept, `tools/mutant.sh` confirmed in a scratch worktree that',
'it builds, that the repository suite still fails only the two pre-existing `TestOpenFile*` tests, that the demonstration',
'fails with the change and passes without it; then the patch was applied to /repo, the quick check(s) run, and /repo',
'restored. Patch, demonstration, logs, replay files and `meta.json` are under `/verif/seeded/<id>/`.',
'"strengthened" says what had to be added to the machinery before the quick check caught the change (the result shown is the final one).\n',
'| id | what the change does | needs, to manifest | caught by (quick) | strengthened |','|---|---|---|---|---|']
for r in rows:
    out.append(f'| {r[0]} | {r[2]} | {r[3]} | {r[4]} | {r[5]} |')
n=len(rows); c=sum(1 for r in rows if r[4]!='none')
out.append(f'\n{c} of {n} changes are caught by the quick tier of the check of the property they break (or of a neighbouring property, as listed); the others say NOT CAUGHT and why in the last column.\n')
s=open('/verif/DESIGN.md').read()
i=s.index('## 8. Sensitivity')
open('/verif/DESIGN.md','w').write(s[:i]+'\n'.join(out)+'\n')
print(c,'of',n)
os.system('python3 /verif/tools/mkrevfix.py')
