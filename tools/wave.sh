#!/bin/bash
# usage: wave.sh <list.tsv> <wave label> [id...]   — evaluates the listed sub-agent changes with tools/mutant.sh
# tsv columns: id, property, file stem (m1...), needs-to-manifest, what-the-change-does, checks (space separated)
list="$1"; wave="$2"; shift 2
while IFS=$'\t' read -r id prop stem needs what checks; do
  [ -z "$id" ] && continue
  if [ $# -gt 0 ]; then case " $* " in *" $id "*) ;; *) continue ;; esac; fi
  if [ $# -eq 0 ] && [ -f /verif/seeded/$id/meta.json ]; then continue; fi
  d=/tmp/mutdemo${WAVE_N:-3}-$prop
  demo=$(ls $d/${stem}_demo* 2>/dev/null | head -1)
  [ -f "$d/$stem.diff" ] && [ -n "$demo" ] || { echo "$id: missing diff or demo in $d"; continue; }
  /verif/tools/mutant.sh "$id" "$prop" "$d/$stem.diff" "$demo" /tmp/mut${WAVE_N:-3}-$prop "$needs" $checks 2>&1 | grep -a "^demo clean\|^checks:" | cut -c1-600
  python3 - "$id" "$what" "$wave" <<'PY'
import json,sys
id,what,wave=sys.argv[1:4]
p=f'/verif/seeded/{id}/meta.json'; m=json.load(open(p))
m['what_the_change_does']=what
m['origin']=f'written by an independent sub-agent given only the property text and a scratch worktree ({wave})'
json.dump(m,open(p,'w'),indent=1)
PY
done < "$list"
