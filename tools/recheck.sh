#!/bin/bash
# usage: recheck.sh <id> [checks...]   — re-runs the quick checks against a stored seeded change
# (seeded/<id>/patch.diff; the demonstration was confirmed when the change was first evaluated) and
# rewrites check_results in its meta.json.
set -u
id="$1"; shift
out=/verif/seeded/$id
[ -f "$out/patch.diff" ] || { echo "no $out/patch.diff"; exit 2; }
prop=$(python3 -c "import json;print(json.load(open('$out/meta.json'))['breaks_property'])")
checks=("$@"); [ ${#checks[@]} -eq 0 ] && checks=("$prop")
cd /repo && git diff --quiet || { echo "/repo is dirty, refusing"; exit 2; }
git -C /repo apply "$out/patch.diff" || { echo "patch does not apply to /repo"; exit 2; }
results=""
for c in "${checks[@]}"; do
  (cd "${CHECK_DIR:-/verif}" && ./check "$c" quick > "$out/check_$c.log" 2>&1); rc=$?
  nv=$(grep -c '^VIOLATION' "$out/check_$c.log")
  first=$(grep -A1 '^VIOLATION' "$out/check_$c.log" | grep 'class=' | head -3 | sed 's/ run_index.*//' | tr '\n' ';')
  results="$results $c:exit=$rc:violations=$nv:$first"
  mkdir -p "$out/replays"; for r in $(grep '^VIOLATION' "$out/check_$c.log" | sed 's/.*replay=//' | head -3); do cp "$r" "$out/replays/" 2>/dev/null; done
  tail -c 20000 "$out/check_$c.log" > "$out/check_$c.log.t" && mv "$out/check_$c.log.t" "$out/check_$c.log"
done
git -C /repo checkout -- .
echo "$id:$results"
python3 - "$id" "$results" <<'PY'
import json,sys
id,res=sys.argv[1:3]
p=f'/verif/seeded/{id}/meta.json'; m=json.load(open(p))
old=m.get('check_results','')
# keep results of checks not re-run
rerun={c.split(':')[0] for c in res.split() if c[:1]=='C' and ':' in c}
import re
kept=[x for x in re.findall(r'C\d\d:exit=\d+:violations=\d+:(?:(?! C\d\d:exit=).)*', old) if x.split(':')[0] not in rerun]
m['check_results']=' '.join([res.strip()]+[k.strip() for k in kept]).strip()
m.setdefault('history',[]).append(old)
json.dump(m,open(p,'w'),indent=1)
PY
