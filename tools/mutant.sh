#!/bin/bash
# usage: mutant.sh <id> <property> <patch.diff> <demo file> <worktree> "<needs>" [checks...]
# 1. confirms in the scratch worktree that the patch builds, keeps the repo suite at its baseline failures,
#    and that the demo fails with the patch and passes without;
# 2. applies the patch to /repo, runs the quick check(s), undoes it straight afterwards;
# 3. stores everything under /verif/seeded/<id>/.
set -u
id="$1"; prop="$2"; patch="$3"; demo="$4"; wt="$5"; needs="$6"; shift 6
checks=("$@"); [ ${#checks[@]} -eq 0 ] && checks=("$prop")
out=/verif/seeded/$id; mkdir -p "$out"
cp "$patch" "$out/patch.diff"; cp "$demo" "$out/$(basename "$demo")"
export GOFLAGS=-mod=mod
cd "$wt" || exit 2
git checkout -q -- . ; git clean -fdq
demoname=$(basename "$demo")
pkg=$(head -40 "$demo" | grep -m1 '^package ' | awk '{print $2}')
run_demo() { # $1 = log file
  if [ "$pkg" = "main" ]; then
    mkdir -p "$wt/zzdemo" && cp "$demo" "$wt/zzdemo/main.go"
    (cd "$wt" && go run ./zzdemo > "$1" 2>&1); rc=$?
    rm -rf "$wt/zzdemo"
  else
    cp "$demo" "$wt/zz_$demoname"
    fn=$(grep -o 'func Test[A-Za-z0-9_]*' "$demo" | awk '{print $2}' | paste -sd'|')
    (cd "$wt" && go test -vet=off -count=1 -run "^($fn)\$" . > "$1" 2>&1); rc=$?
    rm -f "$wt/zz_$demoname"
  fi
  return $rc
}
run_demo "$out/demo_clean.log"; clean_rc=$?
if ! git apply "$patch"; then echo "PATCH DOES NOT APPLY" | tee "$out/result.txt"; exit 2; fi
if ! go build ./... > "$out/build.log" 2>&1; then echo "DOES NOT BUILD" | tee "$out/result.txt"; git checkout -q -- .; exit 2; fi
run_demo "$out/demo_patched.log"; patched_rc=$?
# repository suite with the patch (all packages)
(cd "$wt" && go test -vet=off -count=1 ./... 2>&1 | grep -E '^(--- FAIL|FAIL|ok|panic)' > "$out/suite.log")
suite_fail=$(grep '^--- FAIL' "$out/suite.log" | sort | tr '\n' ' ')
git checkout -q -- . ; git clean -fdq
echo "demo clean rc=$clean_rc patched rc=$patched_rc ; suite failures with patch: $suite_fail"
# now the checks against /repo
cd /repo && git diff --quiet || { echo "/repo is dirty, refusing"; exit 2; }
git -C /repo apply "$patch" || { echo "patch does not apply to /repo"; exit 2; }
results=""
for c in "${checks[@]}"; do
  (cd "${CHECK_DIR:-/verif}" && ./check "$c" quick > "$out/check_$c.log" 2>&1); rc=$?
  nv=$(grep -c '^VIOLATION' "$out/check_$c.log")
  first=$(grep -A1 '^VIOLATION' "$out/check_$c.log" | grep 'class=' | head -3 | sed 's/ run_index.*//' | tr '\n' ';')
  results="$results $c:exit=$rc:violations=$nv:$first"
  mkdir -p "$out/replays"; for r in $(grep '^VIOLATION' "$out/check_$c.log" | sed 's/.*replay=//' | head -3); do cp "$r" "$out/replays/" 2>/dev/null; done
done
git -C /repo checkout -- . 
echo "checks:$results"
python3 - "$id" "$prop" "$needs" "$clean_rc" "$patched_rc" "$suite_fail" "$results" <<'PY'
import json,sys
id,prop,needs,crc,prc,suite,results=sys.argv[1:8]
meta={"id":id,"breaks_property":prop,"needs_to_manifest":needs,
 "confirmed":{"demo_passes_without_change":crc=="0","demo_fails_with_change":prc!="0","repo_suite_failures_with_change":suite.strip(),"baseline_failures":"--- FAIL: TestOpenFile --- FAIL: TestOpenFileWithoutPageIndex (pre-existing, emptied testdata)"},
 "what_was_run":"tools/mutant.sh: demo on clean and patched scratch worktree; go test ./... on the patched worktree; git -C /repo apply; ./check <prop> quick; git -C /repo checkout -- .",
 "check_results":results.strip()}
json.dump(meta,open(f"/verif/seeded/{id}/meta.json","w"),indent=1)
print(json.dumps(meta)[:600])
PY
