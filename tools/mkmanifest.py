#!/usr/bin/env python3
"""Regenerates /verif/MANIFEST.json from the table below (single source of truth)."""
import json, subprocess

CLAIMED = {
 "C01": dict(level="exploration", engine="E1 storage-sim",
   technique="deterministic simulation: seeded writer histories on simulated sink/source/buffer pools with a deterministic poisoning memory pool, row-by-row reference-model oracle, tape shrinking + replay",
   text="Seeded search over writer histories (writer kind x option swarm x Write/Flush batching) executed on simulated storage; every row read back through five read paths is compared with the model (the slice handed to the writer). Sampling of histories/configurations, not a proof; the schema dimension is four fixed Go struct types, seeded dynamic struct types (reflect.StructOf) and 32 static types generated from them; values are seeded generation with boundary values; writer kinds include one mixing Write and WriteRows.",
   note="Trusts Schema.Deconstruct only as a convenience for row-level comparison (typed values are also compared directly). Library built by go1.26.8 with tags verif,debug (deterministic pool replaces sync.Pool).",
   ref="DESIGN.md §4 C01"),
 "C07": dict(level="exploration", engine="E1 storage-sim",
   technique="deterministic simulation: seeded histories deciding how each bloom filter comes to be (dictionary flush, page re-read from simulated buffer pools, fallback, Reset reuse, WriteRowGroup copy/re-encode, deferred/gzip) and how it is read back over a simulated ReaderAt; oracle = no false negative for any written value",
   text="Seeded search over filter-construction histories and read-back configurations; every non-null value written to a filtered column chunk must Check true with no error, also through a MultiRowGroup view of the file's row groups, and every uncompressed filter is at least as large as the configured bits per value prescribe for its distinct values. The value-set dimension is seeded generation (declared); what the simulator adds is the history, the simulated storage behaviour and the deterministic pool state.",
   note="An absent configured filter is counted as a probe, not reported (absence is not a false negative).",
   ref="DESIGN.md §4 C07"),
 "C08": dict(level="exploration", engine="E1 storage-sim (+E3 scheduler for async mode)",
   technique="deterministic simulation: seeded seek/read histories on ten reader kinds (incl. Column.Pages over all row groups and the offset index appearing in the middle of a history) over simulated storage, checked operation by operation against a cursor reference model; tape shrinking + replay",
   text="Seeded search over files (option swarm) and histories of SeekToRow/ReadRows/ReadPage/ReadValues/OffsetIndex operations; after every operation the rows or values returned must be exactly model[cursor:cursor+m], io.EOF only at the end, progress within 8 calls. Sampling of histories and configurations.",
   note="Seek targets within [0, NumRows]; forward-only readers are not given backward seeks; zero-length ReadValues is not exercised. A fifth of the runs use ReadModeAsync under the E3 scheduler (library page goroutines park at every simulated ReadAt), plus a race-detector batch.",
   ref="DESIGN.md §4 C08"),
 "C09": dict(level="exploration", engine="E4 stream-sim",
   technique="deterministic simulation: k sorted inputs with drawn overlap patterns fed through simulated row sources (scripted chunking and EOF styles) or simulated storage, merged and consumed with varying batch sizes or written and read back; oracle over the recorded output: sorted, exact multiset union via hidden (input, sequence) payload, per-input order, dedupe count",
   text="Seeded search over the number of inputs (0..9), key-overlap patterns, sorting-column lists (ascending/descending, nullable, two columns), source chunkings, consumer batch sizes, refinement on/off and read vs WriteRowGroup consumption. The output must be sorted under Schema.Comparator, contain every input row exactly once unaltered, keep each input's rows in order, and hold one row per distinct key when deduplicating.",
   note="Inputs are sorted with the library's own comparator, whose agreement with an independent comparator built from the declared sorting columns is checked on every neighbouring pair (as in C10). Each file input is a single row group.",
   ref="DESIGN.md §4 C09"),
 "C10": dict(level="exploration", engine="E4 stream-sim + E1 storage-sim",
   technique="deterministic simulation: seeded write-batch / read / Reset histories on GenericBuffer, Buffer, RowBuffer then sort.Sort; SortingWriter with drawn run sizes, Flush calls, Reset reuse, simulated spill buffers and sink; oracle = permutation of unique ids, intact rows (checksum), order under an independent comparator and under Schema.Comparator, sorting metadata",
   text="Seeded search over row multisets (nulls, duplicates), sorting-column lists, batch-size sequences (which decide the run lengths the column-buffer kernels see), interleaved reads, prior lives before Reset and SortingWriter run sizes. The independent comparator implements the format's SortingColumn meaning (direction on values only, nulls_first decides null placement).",
   note="Repeated sorting columns and NaN keys are not generated; stability is not required.",
   ref="DESIGN.md §4 C10"),
 "C11": dict(level="exploration", engine="E1 storage-sim (differential through H3 switches)",
   technique="deterministic simulation: seeded source row groups (files, buffers, merges, wrappers, a foreign RowGroup) written through WriteRowGroup twice - fast paths on, and forced onto the row path by verif-tagged switches - on simulated storage; outputs compared row by row and per-column metadata by metadata; path counters prove which path ran",
   text="Seeded search over source kinds x source/destination option pairs (equal in half of the runs so the verbatim copy fires). Both executions must read back exactly source.Rows(); the fast output must carry the same codec, encodings, page type, bloom-filter and page-index presence and sorting metadata per column as the row-path output, respect MaxRowsPerRowGroup and ColumnIndexSizeLimit, declare the configured bloom filter compression, keep bloom filters at least as large as prescribed, leave file-backed sources unchanged after Close and Writer.Reset, start every indexed page on its row, and never route a semantic wrapper (convert, dedupe, foreign) through a chunk-level path.",
   note="Where a dictionary falls back to PLAIN (DictionaryMaxBytes set) depends on page boundaries, so PLAIN and dictionary encodings are compared as one class in that configuration only. Expected rows are what source.Rows() returns.",
   ref="DESIGN.md §4 C11"),
 "C13": dict(level="fault_enumeration", engine="E2 fault enumerator",
   technique="deterministic simulation with stored-byte fault injection: page bodies located from raw bytes, every sampled (byte, bit/burst) x access path re-executed on a simulated ReaderAt, oracle = ErrCorrupted and no wrong row",
   text="For each seeded file the harness enumerates bit flips and short bursts inside page bodies (data and dictionary pages) and drives nine access paths (sequential rows, Reader, typed reader, pages, seek into the page, seek past and back, ReadDictionary, value reader, and in asynchronous read mode a seek into the page the page goroutine has read ahead) until error/EOF; a path that needs the page must end with an error satisfying errors.Is(err, ErrCorrupted), deliver no wrong row and not panic. Positions are enumerated per sampled file (quick: sampled bytes, thorough: more bytes x all 8 bits); files are sampled.",
   note="Header bytes excluded (not checksummed by the format). Needs-the-page is decided from the offset index (pages start on row boundaries). The asynchronous path reads from a plain byte reader with real goroutines: its oracle (corruption reported or right rows) does not depend on their schedule.",
   ref="DESIGN.md §4 C13"),
 "C14": dict(level="fault_enumeration", engine="E2 fault enumerator",
   technique="deterministic simulation with I/O fault injection: fault-free trace recorded, then one injected sink/source fault or truncation per re-execution, enumerated over byte offsets / call indexes",
   text="Four enumerations per seeded scenario: sink faults (byte offset x {err, torn, err-after-full, short-noerr} x {sticky, one-shot}), truncation (strict prefixes), source faults during open+read (ReadAt call index x {err, short+err, short+EOF} x cut position incl. page boundaries) and source faults during WriteRowGroup copy; a fifth of the source/truncation scenarios run on encrypted files (cuts at module boundaries), and one source path looks up the lazily read bloom filters of a multi-row-group file. Oracle: an error is returned, or nothing was lost (bytes identical / every row delivered); never a nil Close with missing bytes, never a clean EOF with missing or altered rows, never a panic.",
   note="Exactly one fault per execution; after the first reported error the object is abandoned. (len(p), io.EOF) is only legal at the end of the source and is covered as a benign configuration, not as a fault.",
   ref="DESIGN.md §4 C14"),
 "C15": dict(level="exploration", engine="E3 scheduler (+race build)",
   technique="deterministic simulation: real goroutines in one synctest bubble, parked at every simulated ReadAt/Write/pool call and between API calls, released one at a time by a seeded scheduler; results compared with the serial execution; race detector kept effective by hiding scheduler hand-offs",
   text="Seeded search over five documented concurrency workloads (independent round trips sharing pools and caches, read back through Rows and through the typed reader, each opened with a read buffer size nobody used before; several goroutines on one File with lazily loaded indexes and bloom filters; one goroutine per ColumnWriter; concurrently filled row groups committed in order; asynchronous read mode) and over interleavings at seam granularity. Every task's digest must equal the serial execution's, with no panic, no deadlock and, in the race build, no race report.",
   note="Interleavings at seam granularity only; the Go runtime decides select ties and which freshly spawned goroutine starts first, so event hashes of these runs are not compared on replay (decisions are recorded and replayed, the violation class must match). Hitting the decision cap is counted, not reported.",
   ref="DESIGN.md §4 C15"),
 "C16": dict(level="exploration", engine="E1 storage-sim + H2 poison",
   technique="deterministic simulation: seeded read/seek/Reset/Close histories with unrelated writer/reader churn, on a deterministic pool that reuses released objects immediately (LIFO) and poisons released slice memory; held values re-compared with the reference model at every later point",
   text="Seeded search over files, reader kinds and histories; every typed value ever returned by Read is re-checked against the written value after each later operation and after Close + churn, Rows returned by ReadRows are re-checked right before the next call on the same reader, clones at the end, and everything handed to Write is compared with a pristine copy after Close; rows handed to WriteRows of buffering writers are private copies overwritten right after the call (the writer must not depend on them); map[string]any rows read from files and from in-memory buffers are kept across reuse of the batch and of the buffer.",
   note="An alias is observable only once its memory is released: buffers deliberately left to the garbage collector never change and are not violations.",
   ref="DESIGN.md §4 C16"),
 "C17": dict(level="exploration", engine="E1 storage-sim + cross-build/process digests",
   technique="deterministic simulation: seeded prior-life histories (close / abandon / injected sink failure) on a reused writer, buffer or sorting writer vs a fresh instance in a fresh deterministic pool; sha256 compared across processes, purego build and AVX-512/AVX2-disabled runs",
   text="Seeded search over (target rows X, options) x histories of earlier lives of the same instance; the bytes written after Reset must equal those of a fresh instance, of a repeat in the warm process and of another goroutine. The digests of the first runs of each batch are recomputed in other processes by the purego build and by the accelerated build with AVX-512 / AVX2 disabled and must match.",
   note="Map-typed values and encryption are not generated (excepted by the property). Every life and the reference use identical options. CPU variants limited to what this machine can emulate via GODEBUG.",
   ref="DESIGN.md §4 C17"),
 "C18": dict(level="fault_enumeration", engine="E2 fault enumerator",
   technique="deterministic simulation with stored-byte and key fault injection on encrypted files: seeded crypto/rand stream, bit flips over the file image, module truncation, equal-length module swaps, transplants from a twin file with another file id, wrong/missing/failing keys; oracle = error or identical rows, mandatory error inside module envelopes",
   text="For each seeded encrypted file (both footer modes, footer key only or per-column keys, AAD prefix on/off; written by fresh writers with configured or library-drawn file identifiers, by one writer instance reused through Reset, through a WriterConfig value, by a SortingWriter, or through BeginRowGroup column writers - the last is a listed known finding) the check verifies the round trip incl. a seek/read history with and without page index and a rewrite of the decrypted row groups through WriteRowGroup into a plain and into a re-encrypting writer, searches the file bytes for every high-entropy written value, and enumerates tampering cases; a full read that needs every module (page index, every row, every bloom filter) must fail, or - only for bytes outside any authenticated module - return exactly the original rows; a missing column key must fail that column only.",
   note="Module envelopes are located by walking length prefixes (no keys needed); quick samples byte offsets (module starts/ends favoured) and caps swap pairs, thorough takes more or all. AES-GCM forgery probability is taken as negligible.",
   ref="DESIGN.md §4 C18"),
 "C20": dict(level="exploration", engine="history + E3 scheduler (+race build)",
   technique="deterministic simulation: seeded Encode/Decode histories incl. failing decodes on shared codec values over a deterministic LIFO poisoning pool; concurrent configuration under a seeded one-at-a-time goroutine scheduler (synctest bubble, yield at every pool Get/Put) with the race detector kept effective; byte-slice reference model",
   text="Seeded search over codecs, inputs, destination-buffer shapes and histories (valid and failing decodes); Decode(Encode(x)) must equal x at every point and earlier results must not change. A third of the runs split the history over 2-4 tasks on the same codec value under the scheduler; a batch also runs under the race detector with scheduler hand-offs hidden from it.",
   note="Corrupted inputs are not fed to LZ4 (its decode loop never terminates on an undecodable block). Third-party codec internals and their own sync.Pools run real; event-log hashes of concurrent runs are not compared for that reason (violation class still is).",
   ref="DESIGN.md §4 C20"),
}

NOT_BUILT_YET = {}

NA = {
 "C02": "pure function (rows, options) -> bytes judged by an independent spec decoder: differential/translation validation; no fault, schedule or object history for a simulator to choose (DESIGN.md §5)",
 "C03": "equivalence of stateless shredding paths over (type, value) pairs; no I/O, concurrency or history (DESIGN.md §5)",
 "C04": "Encode/Decode are pure functions of (values, dst contents, CPU variant); needs spec-derived reference decoders and input enumeration, not a simulator (DESIGN.md §5)",
 "C05": "statistics are a pure function of page contents and options; quantifier is inputs x configurations only (DESIGN.md §5)",
 "C06": "Search/Find is a pure function of (index, value); no state, I/O or concurrency (DESIGN.md §5)",
 "C12": "schema conversion is a pure mapping of (source schema, target schema, rows); no fault/schedule/history dimension (DESIGN.md §5)",
 "C19": "variant encoding and shredding are pure functions of (value tree, shredding schema); no fault/schedule/history dimension (DESIGN.md §5)",
}

def main():
    commits = subprocess.run(["git","-C","/repo","log","--format=%H %s"],capture_output=True,text=True).stdout.splitlines()
    hooks = [c.split()[0] for c in commits if "verif hook" in c]
    baseline = json.load(open("/root/.vp/BASELINE.json"))
    checks = []
    for pid in sorted(CLAIMED):
        c = CLAIMED[pid]
        checks.append({
            "property_id": pid,
            "quick_cmd": f"./check {pid} quick",
            "thorough_cmd": f"./check {pid} thorough",
            "evidence_file": f"/verif/evidence/{pid}.json",
            "replay_cmd_template": "./check replay {path}",
            "engine": c["engine"],
            "level_claimed": {"category": c["level"], "text": c["text"], "design_ref": c["ref"]},
            "level_note": c["note"],
            "technique": c["technique"],
        })
    na = [{"property_id": k, "reason": v} for k, v in sorted(NA.items())]
    na += [{"property_id": k, "reason": v} for k, v in sorted(NOT_BUILT_YET.items())]
    props = [json.loads(l)["id"] for l in open("/verif/properties.jsonl")]
    for p in props:
        if p not in CLAIMED and p not in NA and p not in NOT_BUILT_YET:
            na.append({"property_id": p, "reason": "not claimed yet: the deterministic-simulation check planned in DESIGN.md §4 is not built at this commit"})
    na.sort(key=lambda x: x["property_id"])
    m = {
        "version": 1,
        "setup_cmd": "./check build",
        "hooks": {
            "guard": "verif (Go build tag)",
            "enable": "go1.26.8 test -c -tags verif,debug ./runner  (module /verif/sim, replace github.com/parquet-go/parquet-go => /repo)",
            "baseline_off_cmd": baseline["cmd"],
            "source_commits": hooks,
            "add_only": True,
        },
        "engines": [
            {"name": "pqsim", "path": "/verif/sim", "serves_properties": sorted(CLAIMED), "kind_free_text": "deterministic simulation with fault injection: seeded tape -> explicit scenario -> run on simulated sink/source/buffer pools/memory pool/scheduler; tape-level shrinking; replay files"},
        ],
        "checks": checks,
        "not_applicable": na,
        "notes": "All checks: ./check <id> <tier>; exit 0 held, 1 VIOLATION (with replay file), 2 build/machinery trouble. VERIF_SEED selects the batch. known_findings.txt lists recorded and fixed defects.",
    }
    json.dump(m, open("/verif/MANIFEST.json","w"), indent=1)
    print("wrote MANIFEST.json:", len(checks), "checks,", len(na), "not claimed")

main()
