// Command dbg is a scratch pad for triaging replays by hand.
package main

import (
	"bytes"
	"fmt"

	"github.com/parquet-go/parquet-go"

	"pqsim/gen"
)

func main() {
	sh := gen.ShapeFlat
	d := sh.Make(0, 3, 0)
	for i := 0; i < d.Len(); i++ {
		fmt.Printf("%d: %q\n", i, d.Value(i).(gen.Flat).ZS)
	}
	var buf bytes.Buffer
	w := sh.NewWriter("generic", &buf)
	w.Write(d, 0, 3)
	w.Close()
	f, _ := parquet.OpenFile(bytes.NewReader(buf.Bytes()), int64(buf.Len()))
	out := make([]parquet.Row, 3)
	f.RowGroups()[0].Rows().ReadRows(out)
	for i, r := range out {
		fmt.Printf("file row %d: %+v\n", i, r)
	}
}
