// Command dbg is a scratch pad for triaging replays by hand: it prints the
// column indexes of a parquet file.
package main

import (
	"bytes"
	"fmt"
	"os"

	"github.com/parquet-go/parquet-go"
)

func main() {
	data, err := os.ReadFile(os.Args[1])
	if err != nil {
		panic(err)
	}
	f, err := parquet.OpenFile(bytes.NewReader(data), int64(len(data)))
	if err != nil {
		panic(err)
	}
	cols := f.Schema().Columns()
	for i, ci := range f.ColumnIndexes() {
		fmt.Printf("%d %v order=%v nullpages=%v min=%x max=%x\n", i, cols[i%len(cols)], ci.BoundaryOrder, ci.NullPages, ci.MinValues, ci.MaxValues)
	}
}
