package runner

import (
	"fmt"
	"os"
	"strconv"
	"testing"

	"pqsim/core"
)

// The harness is a `go test -c` binary because testing/synctest needs a
// *testing.T. PQSIM_MODE selects what the binary does.
func TestMain(m *testing.M) {
	switch os.Getenv("PQSIM_MODE") {
	case "driver":
		seed := uint64(1)
		if s := os.Getenv("VERIF_SEED"); s != "" {
			if v, err := strconv.ParseUint(s, 10, 64); err == nil {
				seed = v
			}
		}
		tier := os.Getenv("PQSIM_TIER")
		if tier == "" {
			tier = "quick"
		}
		os.Exit(Driver(os.Getenv("PQSIM_PROP"), tier, seed))
	case "replay":
		// run through the testing framework: scheduler scenarios need a *testing.T
		replayStatus = -1
		m.Run()
		os.Exit(replayStatus)
	case "selftest":
		os.Exit(SelfTest(os.Getenv("PQSIM_PROP")))
	}
	os.Exit(m.Run())
}

func TestWorker(t *testing.T) {
	if os.Getenv("PQSIM_MODE") != "worker" {
		t.Skip("harness entry point")
	}
	core.T = t
	if err := Worker(os.Getenv("PQSIM_JOB")); err != nil {
		fmt.Fprintln(os.Stderr, "worker:", err)
		t.Fatal(err)
	}
}

var replayStatus = 0

// TestNothing is the entry point for replay mode (selected with -test.run '^TestNothing$').
func TestNothing(t *testing.T) {
	if os.Getenv("PQSIM_MODE") != "replay" {
		return
	}
	core.T = t
	replayStatus = ReplayFile(os.Getenv("PQSIM_REPLAY"), os.Getenv("PQSIM_QUIET") != "")
}
