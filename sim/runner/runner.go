// Package runner is the driver: it fans a batch out over worker processes,
// shrinks and re-verifies violations, writes replay files and evidence, and
// prints VIOLATION / KNOWN-FINDING lines.
package runner

import (
	"bufio"
	"encoding/json"
	"fmt"
	"os"
	"os/exec"
	"path/filepath"
	"runtime"
	"sort"
	"strconv"
	"strings"
	"sync"
	"time"

	"pqsim/core"
	"pqsim/props"
	"pqsim/tape"
)

// verifDir is the root the check runs in: /verif, or a snapshot of it (vp run).
var verifDir = func() string {
	if d := os.Getenv("PQSIM_VERIF_DIR"); d != "" {
		return d
	}
	return "/verif"
}()

func Variant() string {
	v := "plain"
	if raceEnabled {
		v = "race"
	}
	if os.Getenv("PQSIM_VARIANT") != "" {
		v = os.Getenv("PQSIM_VARIANT")
	}
	return v
}

// ---- worker ----------------------------------------------------------------

func Worker(jobPath string) error {
	b, err := os.ReadFile(jobPath)
	if err != nil {
		return err
	}
	var job core.Job
	if err := json.Unmarshal(b, &job); err != nil {
		return err
	}
	p := props.ByID(job.Prop)
	if p == nil {
		return fmt.Errorf("unknown property %s", job.Prop)
	}
	res := core.WorkerResult{Probes: map[string]int{}, Faults: map[string]int{}, Variant: job.Variant}
	if job.KeepHashes {
		res.LogHashes = map[int]string{}
	}
	sigs := map[uint64]struct{}{}
	inter := map[uint64]struct{}{}
	classes := map[string]bool{}
	start := time.Now()
	maxWall := time.Duration(job.MaxWallS) * time.Second
	lastFlush := time.Now()
	flush := func(done bool) error {
		res.Sigs = res.Sigs[:0]
		for s := range sigs {
			res.Sigs = append(res.Sigs, s)
		}
		res.Inter = res.Inter[:0]
		for s := range inter {
			res.Inter = append(res.Inter, s)
		}
		res.WallS = time.Since(start).Seconds()
		res.Done = done
		ob, _ := json.Marshal(&res)
		if err := os.WriteFile(job.Out+".tmp", ob, 0o644); err != nil {
			return err
		}
		return os.Rename(job.Out+".tmp", job.Out)
	}
	for i := job.Start; i < job.Count; i += job.Stride {
		if maxWall > 0 && time.Since(start) > maxWall {
			res.CutShort = true
			break
		}
		if time.Since(lastFlush) > 2*time.Second {
			flush(false)
			lastFlush = time.Now()
		}
		os.WriteFile(job.Out+".cur", []byte(strconv.Itoa(i)), 0o644)
		if os.Getenv("PQSIM_TEST_CRASH") == strconv.Itoa(i) { // self-test of the crash path
			go func() { panic("pqsim: deliberate crash (PQSIM_TEST_CRASH)") }()
			time.Sleep(time.Second)
		}
		if job.Expect != nil {
			if _, ok := job.Expect[i]; !ok {
				continue
			}
		}
		runSeed := tape.Mix(job.BaseSeed, job.Prop, i)
		t := tape.New(runSeed)
		sc := p.Gen(t, job.Tier)
		if job.Expect != nil {
			if e, ok := sc.(core.Expecting); ok {
				e.SetExpect(job.Expect[i], job.ExpectFrom)
			}
		}
		c := core.NewCtx(job.Tier)
		if maxWall > 0 {
			c.Deadline = start.Add(maxWall)
		}
		out := core.SafeRun(p, sc, c)
		if out.Digest != "" && i < job.KeepDigests {
			if res.Digests == nil {
				res.Digests = map[int]string{}
			}
			res.Digests[i] = out.Digest
		}
		res.Runs++
		if out.Evals > 0 {
			res.Evals += out.Evals
		} else {
			res.Evals++
		}
		res.Steps += int64(c.Steps)
		res.Events += int64(c.Events())
		for k, v := range c.Probes {
			res.Probes[k] += v
		}
		for k, v := range c.Faults {
			res.Faults[k] += v
		}
		if job.KeepHashes {
			h := c.Hash()
			if h == "" && c.Inter != 0 {
				// event log declared unstable: keep the schedule itself (released-goroutine sequence)
				h = fmt.Sprintf("sched:%x/%d", c.Inter, c.Steps)
			}
			res.LogHashes[i] = h
		}
		if c.Inter != 0 {
			inter[c.Inter] = struct{}{}
		}
		if out.Nontrivial {
			if len(out.SubSigs) > 0 {
				for _, s := range out.SubSigs {
					sigs[s] = struct{}{}
				}
			} else {
				sigs[core.HashString(out.Sig)] = struct{}{}
			}
			res.Nontrivial++
		}
		if out.Sample != nil && len(res.Samples) < 2 && (out.Nontrivial || i < 2*job.Stride) {
			res.Samples = append(res.Samples, map[string]any{"run_index": i, "run_seed": runSeed, "case": out.Sample})
		}
		if v := out.Violation; v != nil && !classes[v.Class] && len(classes) < 6 && os.Getenv("PQSIM_NOSHRINK") == "" {
			classes[v.Class] = true
			f := shrinkAndSave(p, &job, i, runSeed, t.Values(), sc, v)
			res.Found = append(res.Found, f)
		}
	}
	return flush(true)
}

func shrinkAndSave(p core.Prop, job *core.Job, idx int, runSeed uint64, vals []uint32, origSc any, v *core.Violation) core.Found {
	maxExec, maxWall := 300, 45*time.Second
	if job.Tier == "thorough" {
		maxExec, maxWall = 600, 90*time.Second
	}
	if p.Info().Level == "fault_enumeration" {
		maxExec, maxWall = maxExec/3, maxWall/2
	}
	if job.Expect != nil {
		// the expected digest belongs to this exact scenario: no shrinking
		c := core.NewCtx(job.Tier)
		c.KeepLog = true
		out := core.SafeRun(p, origSc, c)
		if out.Violation == nil {
			out.Violation = v
		}
		scJSON, _ := json.Marshal(origSc)
		r := &core.Replay{Property: p.ID(), Class: out.Violation.Class, Detail: out.Violation.Detail, BaseSeed: job.BaseSeed, RunIndex: idx, RunSeed: runSeed,
			Tier: job.Tier, Variant: job.Variant, EventHash: c.Hash(), Events: c.Events(), Tape: vals, Scenario: scJSON, Trace: c.Log}
		os.MkdirAll(job.ReplayDir, 0o755)
		path := filepath.Join(job.ReplayDir, fmt.Sprintf("%s-%d-%d-%s.json", p.ID(), job.BaseSeed, idx, job.Variant))
		core.WriteReplay(path, r)
		return core.Found{Class: r.Class, Detail: r.Detail, Replay: path, RunIndex: idx, RunSeed: runSeed, Variant: job.Variant}
	}
	minTape, st := core.Shrink(p, job.Tier, vals, v.Class, maxExec, maxWall)
	// final run on the minimised tape, with the log kept
	sc := p.Gen(tape.Replay(minTape), job.Tier)
	c := core.NewCtx(job.Tier)
	c.KeepLog = true
	out := core.SafeRun(p, sc, c)
	if out.Violation == nil || out.Violation.Class != v.Class {
		// shrinking lost it (should not happen: every accepted candidate reproduced); fall back to the original
		sc = origSc
		minTape = vals
		c = core.NewCtx(job.Tier)
		c.KeepLog = true
		out = core.SafeRun(p, sc, c)
		if out.Violation == nil {
			out.Violation = &core.Violation{Class: v.Class, Detail: v.Detail + " [did not reproduce in-process]"}
		}
	}
	if f, ok := sc.(core.Focusable); ok {
		f.Focus(out.Violation)
		c = core.NewCtx(job.Tier)
		c.KeepLog = true
		out2 := core.SafeRun(p, sc, c)
		if out2.Violation != nil && out2.Violation.Class == out.Violation.Class {
			out = out2
		}
	}
	scJSON, _ := json.Marshal(sc)
	r := &core.Replay{
		Property: p.ID(), Class: out.Violation.Class, Detail: out.Violation.Detail,
		BaseSeed: job.BaseSeed, RunIndex: idx, RunSeed: runSeed, Tier: job.Tier, Variant: job.Variant,
		EventHash: c.Hash(), Events: c.Events(), Shrink: st, Tape: minTape, Scenario: scJSON, Trace: c.Log,
	}
	os.MkdirAll(job.ReplayDir, 0o755)
	path := filepath.Join(job.ReplayDir, fmt.Sprintf("%s-%d-%d-%s.json", p.ID(), job.BaseSeed, idx, job.Variant))
	if err := core.WriteReplay(path, r); err != nil {
		path = "ERROR:" + err.Error()
	}
	return core.Found{Class: r.Class, Detail: r.Detail, Replay: path, RunIndex: idx, RunSeed: runSeed, Variant: job.Variant}
}

// ---- replay ----------------------------------------------------------------

// ReplayFile executes a replay file. Exit status: 1 reproduced (same class
// and event log), 0 no violation, 2 diverged / trouble.
func ReplayFile(path string, quiet bool) int {
	r, err := core.ReadReplay(path)
	if err != nil {
		fmt.Fprintln(os.Stderr, "replay:", err)
		return 2
	}
	p := props.ByID(r.Property)
	if p == nil {
		fmt.Fprintln(os.Stderr, "replay: unknown property", r.Property)
		return 2
	}
	v, same, c, err := core.ExecReplay(p, r)
	if err != nil {
		fmt.Fprintln(os.Stderr, "replay:", err)
		return 2
	}
	if v == nil {
		if !quiet {
			fmt.Printf("replay %s: no violation (recorded: %s)\n", path, r.Class)
		}
		return 0
	}
	if v.Class != r.Class {
		if out := os.Getenv("PQSIM_REPLAY_ADOPT"); out != "" && (strings.HasSuffix(r.Class, "/crash") || strings.HasSuffix(r.Class, "/hang") || strings.HasSuffix(r.Class, "/data-race")) {
			// the driver is confirming a worker that died, stalled or raced on this
			// scenario: the scenario alone shows an ordinary violation. Record it
			// under what it is; the driver confirms that file like any other.
			nr := *r
			nr.Class, nr.Detail = v.Class, v.Detail
			nr.EventHash, nr.Events = c.Hash(), c.Events()
			if err := core.WriteReplay(out, &nr); err == nil {
				fmt.Printf("replay %s: the scenario shows %s instead of %s; recorded as %s\n", path, v.Class, r.Class, out)
				return 5
			}
		}
		fmt.Printf("REPLAY-DIVERGED %s: recorded class %s, observed %s: %s\n", path, r.Class, v.Class, v.Detail)
		return 2
	}
	if !same {
		fmt.Printf("REPLAY-DIVERGED %s: same violation class %s but event log hash %s != recorded %s (%d vs %d events)\n", path, v.Class, c.Hash(), r.EventHash, c.Events(), r.Events)
		return 2
	}
	if !quiet {
		fmt.Printf("replay %s: reproduced %s: %s\n", path, v.Class, v.Detail)
	}
	return 1
}

// ---- known findings ---------------------------------------------------------

type knownFinding struct {
	Prop   string
	Class  string
	Replay string
	Desc   string
}

// known_findings.txt lines:
//
//	known: property=<id> class=<class> replay=<path relative to /verif> :: <what fails>
//	fixed: property=<id> <commit> <what failed>
func loadKnown() []knownFinding {
	f, err := os.Open(filepath.Join(verifDir, "known_findings.txt"))
	if err != nil {
		return nil
	}
	defer f.Close()
	var out []knownFinding
	sc := bufio.NewScanner(f)
	for sc.Scan() {
		line := strings.TrimSpace(sc.Text())
		if !strings.HasPrefix(line, "known:") {
			continue
		}
		head, desc, _ := strings.Cut(strings.TrimPrefix(line, "known:"), "::")
		k := knownFinding{Desc: strings.TrimSpace(desc)}
		for _, fld := range strings.Fields(head) {
			key, val, _ := strings.Cut(fld, "=")
			switch key {
			case "property":
				k.Prop = val
			case "class":
				k.Class = val
			case "replay":
				k.Replay = val
			}
		}
		out = append(out, k)
	}
	return out
}

// ---- driver ----------------------------------------------------------------

type merged struct {
	core.WorkerResult
	sigs  map[uint64]struct{}
	inter map[uint64]struct{}
}

func Driver(propID, tier string, baseSeed uint64) int {
	p := props.ByID(propID)
	if p == nil {
		fmt.Fprintln(os.Stderr, "unknown property", propID)
		return 2
	}
	start := time.Now()
	info := p.Info()
	bud := p.Budget(tier)
	if s := os.Getenv("PQSIM_RUNS"); s != "" {
		if n, err := strconv.Atoi(s); err == nil {
			bud.Runs = n
		}
	}
	exe, err := os.Executable()
	if err != nil {
		fmt.Fprintln(os.Stderr, err)
		return 2
	}
	work, err := os.MkdirTemp(filepath.Join(verifDir, ".work"), propID+"-")
	if err != nil {
		os.MkdirAll(filepath.Join(verifDir, ".work"), 0o755)
		work, err = os.MkdirTemp(filepath.Join(verifDir, ".work"), propID+"-")
		if err != nil {
			fmt.Fprintln(os.Stderr, err)
			return 2
		}
	}
	defer os.RemoveAll(work)
	replayDir := filepath.Join(verifDir, "replays")
	nw := runtime.NumCPU()
	if nw > 16 {
		nw = 16
	}
	if s := os.Getenv("PQSIM_WORKERS"); s != "" {
		if n, err := strconv.Atoi(s); err == nil && n > 0 {
			nw = n
		}
	}
	fmt.Printf("pqsim: property=%s tier=%s VERIF_SEED=%d runs=%d workers=%d\n", propID, tier, baseSeed, bud.Runs, nw)

	type batch struct {
		exe     string
		variant string
		runs    int
		workers int
		cross   bool
	}
	batches := []batch{{exe, "plain", bud.Runs, nw, false}}
	if os.Getenv("PQSIM_NOCROSS") != "" {
		bud.Cross = 0
	}
	if bud.Cross > 0 {
		pexe := os.Getenv("PQSIM_PUREGO_BIN")
		if pexe == "" {
			fmt.Fprintln(os.Stderr, "pqsim: purego binary not provided")
			return 2
		}
		batches = append(batches, batch{pexe, "purego", bud.Cross, nw, true}, batch{exe, "avx2only", bud.Cross, nw, true}, batch{exe, "noavx", bud.Cross, nw, true})
	}
	if bud.Race > 0 {
		if rexe := os.Getenv("PQSIM_RACE_BIN"); rexe != "" {
			batches = append(batches, batch{rexe, "race", bud.Race, nw, false})
		} else {
			fmt.Fprintln(os.Stderr, "pqsim: race binary not provided")
			return 2
		}
	}
	m := merged{sigs: map[uint64]struct{}{}, inter: map[uint64]struct{}{}}
	m.Probes = map[string]int{}
	m.Faults = map[string]int{}
	variantsRun := []string{}
	trouble := false
	type crashed struct {
		idx     int
		kind    string
		variant string
		log     string
	}
	var crashes []crashed
	for _, bt := range batches {
		variantsRun = append(variantsRun, bt.variant)
		var wg sync.WaitGroup
		var mu sync.Mutex
		for w := 0; w < bt.workers; w++ {
			job := core.Job{Prop: propID, Tier: tier, BaseSeed: baseSeed, Start: w, Stride: bt.workers, Count: bt.runs,
				MaxWallS: int(bud.MaxWall.Seconds()), Out: filepath.Join(work, fmt.Sprintf("res-%s-%d.json", bt.variant, w)),
				Variant: bt.variant, ReplayDir: replayDir, KeepDigests: bud.Cross}
			if bt.cross {
				job.Expect = m.Digests
				job.ExpectFrom = "plain"
				if len(job.Expect) == 0 {
					continue
				}
			}
			jb, _ := json.Marshal(&job)
			jp := filepath.Join(work, fmt.Sprintf("job-%s-%d.json", bt.variant, w))
			os.WriteFile(jp, jb, 0o644)
			wg.Add(1)
			go func(job core.Job, jp string) {
				defer wg.Done()
				deadline := time.Now().Add(bud.MaxWall*2 + 3*time.Minute)
				for attempt := 0; attempt < 4; attempt++ {
					jb, _ := json.Marshal(&job)
					os.WriteFile(jp, jb, 0o644)
					os.Remove(job.Out)
					os.Remove(job.Out + ".cur")
					cmd := exec.Command(bt.exe, "-test.run", "^TestWorker$", "-test.timeout", "0")
					cmd.Env = append(os.Environ(), "PQSIM_MODE=worker", "PQSIM_JOB="+jp, "GOMAXPROCS=2", "GORACE=halt_on_error=1 exitcode=66", "PQSIM_VARIANT="+bt.variant)
					cmd.Env = append(cmd.Env, VariantEnv(bt.variant)...)
					logf, _ := os.Create(jp + ".log")
					cmd.Stdout = logf
					cmd.Stderr = logf
					done := make(chan error, 1)
					if err := cmd.Start(); err != nil {
						mu.Lock()
						trouble = true
						mu.Unlock()
						fmt.Fprintln(os.Stderr, "pqsim: cannot start worker:", err)
						return
					}
					go func() { done <- cmd.Wait() }()
					hung := false
					select {
					case <-done:
					case <-time.After(time.Until(deadline)):
						cmd.Process.Kill()
						<-done
						hung = true
					}
					logf.Close()
					var wr core.WorkerResult
					rb, err := os.ReadFile(job.Out)
					if err == nil {
						err = json.Unmarshal(rb, &wr)
					}
					if err == nil {
						mu.Lock()
						m.merge(&wr)
						mu.Unlock()
						if wr.Done {
							return
						}
					}
					// the worker died (fatal error, runtime crash, kill) or was stopped by the watchdog
					cur := -1
					if cb, err := os.ReadFile(job.Out + ".cur"); err == nil {
						cur, _ = strconv.Atoi(string(cb))
					}
					lb, _ := os.ReadFile(jp + ".log")
					tail := string(lb)
					if len(tail) > 1500 {
						tail = tail[:1500]
					}
					if cur < 0 {
						mu.Lock()
						trouble = true
						mu.Unlock()
						fmt.Fprintf(os.Stderr, "pqsim: worker %d (%s) died before its first run:\n%s\n", job.Start, bt.variant, tail)
						return
					}
					kind := "crash"
					if strings.Contains(string(lb), "WARNING: DATA RACE") {
						kind = "data-race"
					}
					if hung {
						kind = "hang"
					}
					mu.Lock()
					crashes = append(crashes, crashed{idx: cur, kind: kind, variant: bt.variant, log: tail})
					mu.Unlock()
					if hung {
						return
					}
					job.Start = cur + job.Stride
				}
			}(job, jp)
		}
		wg.Wait()
	}

	// workers that died: the run in progress becomes a crash/hang candidate,
	// confirmed below by replaying that scenario alone in a fresh process
	for _, cr := range crashes {
		runSeed := tape.Mix(baseSeed, propID, cr.idx)
		t := tape.New(runSeed)
		sc := p.Gen(t, tier)
		scJSON, _ := json.Marshal(sc)
		r := &core.Replay{Property: propID, Class: propID + "/" + cr.kind, Detail: "worker process " + cr.kind + " while executing this scenario: " + firstLines(cr.log, 6),
			BaseSeed: baseSeed, RunIndex: cr.idx, RunSeed: runSeed, Tier: tier, Variant: cr.variant, Tape: t.Values(), Scenario: scJSON}
		os.MkdirAll(replayDir, 0o755)
		path := filepath.Join(replayDir, fmt.Sprintf("%s-%d-%d-%s-%s.json", propID, baseSeed, cr.idx, cr.variant, cr.kind))
		core.WriteReplay(path, r)
		m.Found = append(m.Found, core.Found{Class: r.Class, Detail: r.Detail, Replay: path, RunIndex: cr.idx, RunSeed: runSeed, Variant: cr.variant})
	}

	// violations: dedupe by class, confirm each replay in a fresh process
	known := loadKnown()
	sort.SliceStable(m.Found, func(i, j int) bool {
		if m.Found[i].Class != m.Found[j].Class {
			return m.Found[i].Class < m.Found[j].Class
		}
		if pi, pj := m.Found[i].Variant == "plain", m.Found[j].Variant == "plain"; pi != pj {
			return pi
		}
		return m.Found[i].RunIndex < m.Found[j].RunIndex
	})
	seen := map[string]bool{}
	violations := 0
	unconfirmed := 0
	knownHit := map[string]bool{}
	var knownLines []string
	exit := 0
	exeFor := func(variant string) string {
		switch variant {
		case "race":
			return os.Getenv("PQSIM_RACE_BIN")
		case "purego":
			return os.Getenv("PQSIM_PUREGO_BIN")
		}
		return exe
	}
	for _, f := range m.Found {
		if seen[f.Class] {
			continue
		}
		seen[f.Class] = true
		isKnown := false
		for _, k := range known {
			if k.Prop == propID && k.Class == f.Class {
				isKnown = true
				if !knownHit[k.Class] {
					knownHit[k.Class] = true
					knownLines = append(knownLines, fmt.Sprintf("KNOWN-FINDING: property=%s %s :: %s", propID, k.Class, k.Desc))
				}
			}
		}
		if isKnown {
			continue
		}
		code := runReplayProcess(exeFor(f.Variant), f.Replay, f.Variant)
		unconfirmable := strings.HasSuffix(f.Class, "/crash") || strings.HasSuffix(f.Class, "/hang") || strings.HasSuffix(f.Class, "/data-race")
		if unconfirmable && code == 5 {
			// alone in a fresh process the scenario does not kill or stall the worker
			// but violates the property in the ordinary way: judged as that
			kind := f.Class[strings.LastIndex(f.Class, "/")+1:]
			adopted := strings.TrimSuffix(strings.TrimSuffix(f.Replay, ".json"), "-"+kind) + "-adopted.json"
			if r, err := core.ReadReplay(adopted); err == nil {
				f.Class, f.Detail, f.Replay = r.Class, r.Detail, adopted
				unconfirmable = false
				if seen[f.Class] {
					continue
				}
				seen[f.Class] = true
				known2 := false
				for _, k := range known {
					if k.Prop == propID && k.Class == f.Class {
						known2 = true
						if !knownHit[k.Class] {
							knownHit[k.Class] = true
							knownLines = append(knownLines, fmt.Sprintf("KNOWN-FINDING: property=%s %s :: %s", propID, k.Class, k.Desc))
						}
					}
				}
				if known2 {
					continue
				}
				code = runReplayProcess(exeFor(f.Variant), adopted, f.Variant)
			}
		}
		if ((strings.HasSuffix(f.Class, "/crash") || strings.HasSuffix(f.Class, "/data-race")) && code == 3) || (strings.HasSuffix(f.Class, "/hang") && code == 4) {
			code = 1
		}
		if unconfirmable && code != 1 {
			// the worker died or stalled but the scenario alone does not do it again in a fresh
			// process (twice): an event of this machine (load, memory), not a property of the
			// code under test. Counted in the evidence, not a verdict and not a failure.
			if code2 := runReplayProcess(exeFor(f.Variant), f.Replay, f.Variant); (code2 == 3 && !strings.HasSuffix(f.Class, "/hang")) || (code2 == 4 && strings.HasSuffix(f.Class, "/hang")) {
				code = 1
			} else {
				unconfirmed++
				fmt.Fprintf(os.Stderr, "pqsim: note: a worker %s while executing run %d did not reproduce in two fresh processes; counted as unconfirmed_worker_incidents, not reported\n", f.Class[strings.LastIndex(f.Class, "/")+1:], f.RunIndex)
				continue
			}
		}
		switch code {
		case 1:
			violations++
			fmt.Printf("VIOLATION property=%s replay=%s\n", propID, f.Replay)
			fmt.Printf("  class=%s run_index=%d run_seed=%d variant=%s\n  %s\n", f.Class, f.RunIndex, f.RunSeed, f.Variant, f.Detail)
			exit = 1
		default:
			fmt.Fprintf(os.Stderr, "pqsim: violation %s found by a worker did not replay identically in a fresh process (status %d): %s — machinery trouble, not reported as VIOLATION\n", f.Class, code, f.Replay)
			trouble = true
		}
	}
	// committed known findings are replayed on every run
	for _, k := range known {
		if k.Prop != propID || knownHit[k.Class] || k.Replay == "" {
			continue
		}
		code := runReplayProcess(exe, filepath.Join(verifDir, k.Replay), "plain")
		if code == 1 {
			knownHit[k.Class] = true
			knownLines = append(knownLines, fmt.Sprintf("KNOWN-FINDING: property=%s %s :: %s", propID, k.Class, k.Desc))
		} else {
			fmt.Printf("note: listed finding %s no longer reproduces from %s (status %d)\n", k.Class, k.Replay, code)
		}
	}
	for _, l := range knownLines {
		fmt.Println(l)
	}

	wall := time.Since(start).Seconds()
	m.Probes["unconfirmed_worker_incidents"] = unconfirmed
	if err := writeEvidence(p, info, tier, baseSeed, &m, wall, violations, knownLines, variantsRun, nw); err != nil {
		fmt.Fprintln(os.Stderr, "pqsim: cannot write evidence:", err)
		trouble = true
	}
	fmt.Printf("pqsim: property=%s runs=%d evaluations=%d nontrivial_distinct=%d violations=%d known=%d wall=%.1fs\n", propID, m.Runs, m.Evals, len(m.sigs), violations, len(knownLines), wall)
	if exit == 0 && trouble {
		return 2
	}
	return exit
}

// VariantEnv is the extra environment of a build/CPU variant.
func VariantEnv(variant string) []string {
	const avx512off = "cpu.avx512=off,cpu.avx512f=off,cpu.avx512bw=off,cpu.avx512cd=off,cpu.avx512dq=off,cpu.avx512vl=off,cpu.avx512vbmi=off"
	switch variant {
	case "avx2only":
		return []string{"GODEBUG=" + avx512off}
	case "noavx":
		return []string{"GODEBUG=" + avx512off + ",cpu.avx2=off,cpu.avx=off"}
	}
	return nil
}

func runReplayProcess(exe, path, variant string) int {
	cmd := exec.Command(exe, "-test.run", "^TestNothing$")
	cmd.Env = append(os.Environ(), "PQSIM_MODE=replay", "PQSIM_REPLAY="+path, "PQSIM_QUIET=1", "GORACE=halt_on_error=1 exitcode=66")
	cmd.Env = append(cmd.Env, VariantEnv(variant)...)
	if strings.HasSuffix(strings.TrimSuffix(path, ".json"), "-hang") {
		cmd.Env = append(cmd.Env, "PQSIM_REPLAY_WALL=90s")
	}
	for _, k := range []string{"-hang", "-crash", "-data-race"} {
		if base := strings.TrimSuffix(path, ".json"); strings.HasSuffix(base, k) {
			cmd.Env = append(cmd.Env, "PQSIM_REPLAY_ADOPT="+strings.TrimSuffix(base, k)+"-adopted.json")
		}
	}
	var buf strings.Builder
	cmd.Stdout = &buf
	cmd.Stderr = &buf
	if err := cmd.Start(); err != nil {
		return 2
	}
	done := make(chan error, 1)
	go func() { done <- cmd.Wait() }()
	// a hang candidate whose scenario is a long enumeration stops at the 90 s
	// deadline above and returns; the kill comes late enough that a machine
	// shared with other batches does not turn such a scenario into a "hang"
	limit := 3 * time.Minute
	if strings.HasSuffix(strings.TrimSuffix(path, ".json"), "-hang") {
		limit = 6 * time.Minute
	}
	var err error
	select {
	case err = <-done:
	case <-time.After(limit):
		cmd.Process.Kill()
		<-done
		return 4 // hang
	}
	if err == nil {
		return 0
	}
	if ee, ok := err.(*exec.ExitError); ok {
		code := ee.ExitCode()
		if code == 1 {
			return 1
		}
		out := buf.String()
		if len(out) > 2000 {
			out = out[:2000]
		}
		fmt.Fprintf(os.Stderr, "%s\n", out)
		if code == 0 || code == 2 {
			return 2
		}
		if code == 5 {
			return 5 // an ordinary violation adopted from a crash/hang/data-race candidate
		}
		return 3 // crash: fatal error, signal, race-detector exit code
	}
	return 2
}

func firstLines(s string, n int) string {
	lines := strings.Split(s, "\n")
	if len(lines) > n {
		lines = lines[:n]
	}
	return strings.Join(lines, " | ")
}

func (m *merged) merge(w *core.WorkerResult) {
	m.Runs += w.Runs
	m.Evals += w.Evals
	m.Nontrivial += w.Nontrivial
	m.Steps += w.Steps
	m.Events += w.Events
	if w.CutShort {
		m.CutShort = true
	}
	for _, s := range w.Sigs {
		m.sigs[s] = struct{}{}
	}
	for _, s := range w.Inter {
		m.inter[s] = struct{}{}
	}
	for k, v := range w.Probes {
		m.Probes[k] += v
	}
	for k, v := range w.Faults {
		m.Faults[k] += v
	}
	m.Found = append(m.Found, w.Found...)
	for k, v := range w.Digests {
		if m.Digests == nil {
			m.Digests = map[int]string{}
		}
		m.Digests[k] = v
	}
	if len(m.Samples) < 4 {
		m.Samples = append(m.Samples, w.Samples...)
	}
	if w.WallS > m.WallS {
		m.WallS = w.WallS
	}
}

func writeEvidence(p core.Prop, info core.Info, tier string, seed uint64, m *merged, wall float64, violations int, known []string, variants []string, workers int) error {
	samples := m.Samples
	if len(samples) > 4 {
		samples = samples[:4]
	}
	if len(samples) == 0 {
		samples = []any{"no sample recorded"}
	}
	hours := wall / 3600
	if hours <= 0 {
		hours = 1e-9
	}
	zeroProbes := []string{}
	for _, k := range core.SortedKeys(m.Probes) {
		if m.Probes[k] == 0 {
			zeroProbes = append(zeroProbes, k)
		}
	}
	cov := map[string]any{
		"evaluations":            m.Evals,
		"distinct_nontrivial":    len(m.sigs),
		"rule":                   info.Rule,
		"samples":                samples,
		"simulated_runs":         m.Runs,
		"nontrivial_runs":        m.Nontrivial,
		"runs_per_hour":          int(float64(m.Runs) / hours),
		"seeds_per_hour":         int(float64(m.Runs) / hours),
		"evaluations_per_hour":   int(float64(m.Evals) / hours),
		"logical_steps":          m.Steps,
		"seam_events":            m.Events,
		"simulated_time":         "n/a: the library has no clock, timer or deadline; coverage is counted in logical steps (API operations) and seam events (simulated I/O calls, scheduler decisions)",
		"faults_fired":           m.Faults,
		"fault_kinds_available":  info.FaultKind,
		"probes":                 m.Probes,
		"distinct_interleavings": len(m.inter),
		"real_components":        info.Real,
		"stub_components":        info.Stubs,
		"build_variants":         variants,
		"workers":                workers,
		"cut_short_by_wall_cap":  m.CutShort,
		"known_findings":         known,
		"seed_derivation":        "run i uses seed mix(VERIF_SEED, property id, i); every choice of the run is drawn from it",
	}
	if info.Level == "fault_enumeration" {
		cov["exhaustive"] = false
	}
	ev := map[string]any{
		"property_id": p.ID(),
		"tier":        tier,
		"seed":        seed,
		"level":       info.Level,
		"coverage":    cov,
		"assumptions": info.Assume,
		"wall_s":      wall,
		"violations":  violations,
	}
	b, err := json.MarshalIndent(ev, "", " ")
	if err != nil {
		return err
	}
	os.MkdirAll(filepath.Join(verifDir, "evidence"), 0o755)
	return os.WriteFile(filepath.Join(verifDir, "evidence", p.ID()+".json"), b, 0o644)
}

// SelfTest is the determinism check: for every property (or the one given) the
// first N runs of the quick batch are executed in several fresh processes at
// GOMAXPROCS 1, 4 and 16 and their event-log hashes compared run by run. Runs
// whose event log is declared unstable (hash "") are compared by outcome only.
func SelfTest(propID string) int {
	exe, err := os.Executable()
	if err != nil {
		return 2
	}
	n := 64
	if s := os.Getenv("PQSIM_SELFTEST_RUNS"); s != "" {
		if v, err := strconv.Atoi(s); err == nil {
			n = v
		}
	}
	work, err := os.MkdirTemp(filepath.Join(verifDir, ".work"), "selftest-")
	if err != nil {
		os.MkdirAll(filepath.Join(verifDir, ".work"), 0o755)
		if work, err = os.MkdirTemp(filepath.Join(verifDir, ".work"), "selftest-"); err != nil {
			fmt.Fprintln(os.Stderr, err)
			return 2
		}
	}
	defer os.RemoveAll(work)
	bad := 0
	for _, p := range props.All() {
		if propID != "" && p.ID() != propID {
			continue
		}
		type cfg struct {
			procs string
			rep   int
		}
		var cfgs []cfg
		for _, mp := range []string{"1", "4", "16"} {
			for r := 0; r < 2; r++ {
				cfgs = append(cfgs, cfg{mp, r})
			}
		}
		results := make([]map[int]string, len(cfgs))
		var wg sync.WaitGroup
		for ci, cf := range cfgs {
			wg.Add(1)
			go func(ci int, cf cfg) {
				defer wg.Done()
				job := core.Job{Prop: p.ID(), Tier: "quick", BaseSeed: 1, Start: 0, Stride: 1, Count: n, MaxWallS: 600,
					Out: filepath.Join(work, fmt.Sprintf("%s-%d.json", p.ID(), ci)), Variant: "plain", ReplayDir: filepath.Join(work, "replays"), KeepHashes: true}
				jb, _ := json.Marshal(&job)
				jp := job.Out + ".job"
				os.WriteFile(jp, jb, 0o644)
				cmd := exec.Command(exe, "-test.run", "^TestWorker$", "-test.timeout", "0")
				cmd.Env = append(os.Environ(), "PQSIM_MODE=worker", "PQSIM_JOB="+jp, "GOMAXPROCS="+cf.procs, "PQSIM_NOSHRINK=1")
				cmd.Run()
				var wr core.WorkerResult
				if rb, err := os.ReadFile(job.Out); err == nil {
					json.Unmarshal(rb, &wr)
				}
				results[ci] = wr.LogHashes
			}(ci, cf)
		}
		wg.Wait()
		diverged, unstable, compared, schedRuns, schedDiverged := 0, 0, 0, 0, 0
		for i := 0; i < n; i++ {
			ref, ok := results[0][i]
			if !ok {
				continue
			}
			if ref == "" {
				unstable++
				continue
			}
			if strings.HasPrefix(ref, "sched:") {
				// scheduler runs: the Go runtime decides select ties and the start
				// order of freshly spawned goroutines; measured, not required
				schedRuns++
				for ci := 1; ci < len(cfgs); ci++ {
					if results[ci][i] != ref {
						schedDiverged++
						break
					}
				}
				continue
			}
			compared++
			for ci := 1; ci < len(cfgs); ci++ {
				if results[ci][i] != ref {
					diverged++
					fmt.Printf("DIVERGED property=%s run=%d: GOMAXPROCS=%s rep %d hash %s != %s\n", p.ID(), i, cfgs[ci].procs, cfgs[ci].rep, results[ci][i], ref)
					break
				}
			}
		}
		fmt.Printf("selftest property=%s runs=%d compared=%d unstable(declared)=%d diverged=%d scheduler_runs=%d scheduler_runs_with_differing_schedule=%d processes=%d\n", p.ID(), n, compared, unstable, diverged, schedRuns, schedDiverged, len(cfgs))
		bad += diverged
	}
	if bad > 0 {
		return 1
	}
	return 0
}
