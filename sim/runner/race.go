//go:build race

package runner

const raceEnabled = true
