//go:build race

package sched

import "runtime"

func raceDisable() { runtime.RaceDisable() }
func raceEnable()  { runtime.RaceEnable() }

const RaceEnabled = true
