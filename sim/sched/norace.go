//go:build !race

package sched

func raceDisable() {}
func raceEnable()  {}

const RaceEnabled = false
