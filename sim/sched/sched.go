// Package sched is the E3 engine: a seeded one-at-a-time scheduler for real
// goroutines. All goroutines of a run live in one testing/synctest bubble.
// Every seam call (simulated file, buffer pool, memory pool, explicit yields
// between API calls) parks the calling goroutine; when the bubble is quiescent
// (every goroutine parked at a gate or durably blocked inside the library) the
// scheduler draws which parked goroutine proceeds. Hand-offs are hidden from
// the race detector so it keeps seeing only the program's own synchronisation.
package sched

import (
	"fmt"
	"runtime"
	"sort"
	"strconv"
	"strings"
	"sync/atomic"
	"testing"
	"testing/synctest"
	"time"

	"pqsim/tape"
)

// Chooser picks an index in [0,n).
type Chooser interface {
	Pick(n int) int
}

// Decisions replays a recorded decision list (exhausted => 0) or draws from a PRNG, recording.
type Decisions struct {
	Replay   []int
	replayOn bool
	rng      *tape.Rng
	Taken    []int
}

func NewDecisions(seed uint64, replay []int) *Decisions {
	if replay != nil {
		return &Decisions{Replay: replay, replayOn: true}
	}
	return &Decisions{rng: tape.NewRng(seed)}
}

func (d *Decisions) Pick(n int) int {
	var v int
	if d.replayOn {
		i := len(d.Taken)
		if i < len(d.Replay) {
			v = d.Replay[i]
		}
	} else {
		v = d.rng.Intn(n)
	}
	if n > 0 {
		v %= n
	}
	d.Taken = append(d.Taken, v)
	return v
}

type parkRec struct {
	ch   chan struct{}
	gid  int64
	task int // -1: goroutine spawned by the library
	kind string
	key  string
	seq  int64
}

// S is one scheduler run.
type S struct {
	dec       *Decisions
	parkCh    chan *parkRec
	tasks     map[int64]int // goroutine id -> task index (read-only after start)
	done      []atomic.Bool
	running   atomic.Bool
	MaxSteps  int
	Steps     int
	Log       func(format string, args ...any)
	interHash uint64
	seq       atomic.Int64
	abort     atomic.Bool
	Deadlock  string // non-empty when the run ended in a deadlock
	CutShort  bool
}

// Result of a run.
type Result struct {
	Decisions []int
	Steps     int
	Inter     uint64
	Deadlock  string
	CutShort  bool
	Panic     any // panic of a task (first)
	PanicTask int
	Stack     string
}

func gid() int64 {
	var buf [64]byte
	n := runtime.Stack(buf[:], false)
	// "goroutine 123 ["
	s := string(buf[:n])
	s = strings.TrimPrefix(s, "goroutine ")
	if i := strings.IndexByte(s, ' '); i > 0 {
		v, _ := strconv.ParseInt(s[:i], 10, 64)
		return v
	}
	return 0
}

// Yield parks the calling goroutine until the scheduler releases it. It is a
// no-op when no scheduler run is active (so seams can call it unconditionally).
//
//go:norace
func (s *S) Yield(kind, key string) {
	if s == nil || !s.running.Load() || s.abort.Load() {
		return
	}
	g := gid()
	task, ok := s.tasks[g]
	if !ok {
		task = -1
	}
	raceDisable()
	rec := &parkRec{gid: g, task: task, kind: kind, key: key}
	rec.ch = make(chan struct{})
	rec.seq = s.seq.Add(1)
	s.parkCh <- rec
	<-rec.ch
	raceEnable()
}

// Run executes tasks under the scheduler inside a synctest bubble. t must be
// the *testing.T of the process. setup runs inside the bubble before the tasks
// start (create everything the tasks share there).
func Run(t *testing.T, dec *Decisions, maxSteps int, logf func(string, ...any), setup func(s *S), tasks []func(s *S), finish func()) (res Result) {
	if maxSteps <= 0 {
		maxSteps = 20000
	}
	watch := time.AfterFunc(5*time.Minute, func() {
		// real-time watchdog: a goroutine blocked on a mutex while the lock
		// holder is parked never becomes "durably blocked"
		buf := make([]byte, 1<<20)
		n := runtime.Stack(buf, true)
		fmt.Printf("pqsim/sched: watchdog fired, scheduler stuck in synctest.Wait\n%s\n", buf[:n])
		panic("pqsim/sched: watchdog")
	})
	defer watch.Stop()
	defer func() {
		// synctest panics when the bubble's root returns while goroutines are
		// still durably blocked
		if p := recover(); p != nil {
			msg := fmt.Sprint(p)
			if strings.Contains(msg, "deadlock") || strings.Contains(msg, "blocked goroutines") {
				if res.Deadlock == "" {
					res.Deadlock = msg
				}
				return
			}
			panic(p)
		}
	}()
	synctest.Test(t, func(t *testing.T) {
		s := &S{dec: dec, MaxSteps: maxSteps, Log: logf}
		s.parkCh = make(chan *parkRec, 4096)
		s.tasks = map[int64]int{}
		s.done = make([]atomic.Bool, len(tasks))
		if setup != nil {
			setup(s)
		}
		// start phase: every task goroutine registers its id, then parks
		type reg struct {
			task int
			gid  int64
		}
		regCh := make(chan reg, len(tasks))
		startCh := make(chan struct{})
		type pan struct {
			task  int
			val   any
			stack string
		}
		panCh := make(chan pan, len(tasks))
		for i, f := range tasks {
			go func(i int, f func(*S)) {
				regCh <- reg{i, gid()}
				<-startCh
				defer func() {
					if p := recover(); p != nil {
						buf := make([]byte, 8192)
						n := runtime.Stack(buf, false)
						panCh <- pan{i, p, string(buf[:n])}
					}
					s.done[i].Store(true)
				}()
				s.Yield("start", strconv.Itoa(i))
				f(s)
			}(i, f)
		}
		for range tasks {
			r := <-regCh
			s.tasks[r.gid] = r.task
		}
		s.running.Store(true)
		close(startCh) // ordinary, visible barrier: nothing has run yet

		var parked []*parkRec
		inter := uint64(14695981039346656037)
		for {
			waitQuiescent()
			parked = drain(s.parkCh, parked)
			select {
			case p := <-panCh:
				if res.Panic == nil {
					res.Panic, res.PanicTask, res.Stack = p.val, p.task, p.stack
				}
			default:
			}
			if len(parked) == 0 {
				all := true
				for i := range s.done {
					if !s.done[i].Load() {
						all = false
					}
				}
				if !all {
					s.Deadlock = "no runnable goroutine: every unfinished task is blocked inside the library"
				}
				break
			}
			if s.Steps >= s.MaxSteps {
				s.CutShort = true
				break
			}
			sort.SliceStable(parked, func(a, b int) bool {
				pa, pb := parked[a], parked[b]
				if pa.task != pb.task {
					// registered tasks first, by index; library goroutines after
					if pa.task < 0 || pb.task < 0 {
						return pb.task < 0 && pa.task >= 0
					}
					return pa.task < pb.task
				}
				if pa.kind != pb.kind {
					return pa.kind < pb.kind
				}
				if pa.key != pb.key {
					return pa.key < pb.key
				}
				return pa.seq < pb.seq
			})
			i := s.dec.Pick(len(parked))
			p := parked[i]
			parked = append(parked[:i], parked[i+1:]...)
			s.Steps++
			name := "lib"
			if p.task >= 0 {
				name = "t" + strconv.Itoa(p.task)
			}
			for _, ch := range name + p.kind {
				inter = (inter ^ uint64(ch)) * 1099511628211
			}
			if s.Log != nil {
				s.Log("sched %d/%d -> %s %s %s", i, len(parked)+1, name, p.kind, p.key)
			}
			release(p)
		}
		// wind down: let everything still parked run to completion unscheduled
		s.abort.Store(true)
		if finish != nil && len(parked) == 0 && s.Deadlock == "" && !s.CutShort {
			// still inside the bubble: objects created in it (channels inside
			// pooled codecs) must not be used from outside
			finish()
		}
		for _, p := range parked {
			release(p)
		}
		for k := 0; k < 1000; k++ {
			waitQuiescent()
			rest := drain(s.parkCh, nil)
			if len(rest) == 0 {
				break
			}
			for _, p := range rest {
				release(p)
			}
		}
		select {
		case p := <-panCh:
			if res.Panic == nil {
				res.Panic, res.PanicTask, res.Stack = p.val, p.task, p.stack
			}
		default:
		}
		s.running.Store(false)
		res.Decisions = s.dec.Taken
		res.Steps = s.Steps
		res.Inter = inter
		res.Deadlock = s.Deadlock
		res.CutShort = s.CutShort
	})
	return res
}

//go:norace
func waitQuiescent() {
	raceDisable()
	synctest.Wait()
	raceEnable()
}

//go:norace
func drain(ch chan *parkRec, into []*parkRec) []*parkRec {
	raceDisable()
	for {
		select {
		case p := <-ch:
			into = append(into, p)
			continue
		default:
		}
		break
	}
	raceEnable()
	return into
}

//go:norace
func release(p *parkRec) {
	raceDisable()
	close(p.ch)
	raceEnable()
}
