package env

import (
	"fmt"
	"io"

	"pqsim/core"
)

// PoolCfg configures the legal-but-unusual behaviours of simulated page
// buffers. No fault is ever injected here: no property promises anything about
// a failing page buffer.
type PoolCfg struct {
	Enabled     bool `json:"enabled"`
	ReadChunk   int  `json:"read_chunk,omitempty"`    // max bytes per Read (0 = unlimited)
	EOFWithData bool `json:"eof_with_data,omitempty"` // last Read returns (n>0, io.EOF)
	WriterTo    bool `json:"writer_to,omitempty"`
	ReaderFrom  bool `json:"reader_from,omitempty"`
	Recycle     bool `json:"recycle,omitempty"` // hand released buffers out again (LIFO)
}

type SimBufferPool struct {
	c      *core.Ctx
	cfg    PoolCfg
	Gets   int
	Puts   int
	free   []*simBuf
	nextID int
	// Anomalies are contract violations by the library: use after Put, double Put, foreign Put.
	Anomalies []string
	Gate      func(op string)
}

func NewBufferPool(c *core.Ctx, cfg PoolCfg) *SimBufferPool {
	return &SimBufferPool{c: c, cfg: cfg}
}

type simBuf struct {
	pool *SimBufferPool
	id   int
	data []byte
	pos  int64
	put  bool
}

type simBufWT struct{ *simBuf }
type simBufRF struct{ *simBuf }
type simBufWTRF struct{ *simBuf }

func (b simBufWT) WriteTo(w io.Writer) (int64, error)    { return b.writeTo(w) }
func (b simBufWTRF) WriteTo(w io.Writer) (int64, error)  { return b.writeTo(w) }
func (b simBufRF) ReadFrom(r io.Reader) (int64, error)   { return b.readFrom(r) }
func (b simBufWTRF) ReadFrom(r io.Reader) (int64, error) { return b.readFrom(r) }

func (p *SimBufferPool) face(b *simBuf) io.ReadWriteSeeker {
	switch {
	case p.cfg.WriterTo && p.cfg.ReaderFrom:
		return simBufWTRF{b}
	case p.cfg.WriterTo:
		return simBufWT{b}
	case p.cfg.ReaderFrom:
		return simBufRF{b}
	}
	return b
}

func unwrapBuf(x io.ReadWriteSeeker) *simBuf {
	switch v := x.(type) {
	case *simBuf:
		return v
	case simBufWT:
		return v.simBuf
	case simBufRF:
		return v.simBuf
	case simBufWTRF:
		return v.simBuf
	}
	return nil
}

func (p *SimBufferPool) GetBuffer() io.ReadWriteSeeker {
	if p.Gate != nil {
		p.Gate("get")
	}
	p.Gets++
	var b *simBuf
	if p.cfg.Recycle && len(p.free) > 0 {
		b = p.free[len(p.free)-1]
		p.free = p.free[:len(p.free)-1]
		b.put = false
		b.data = b.data[:0]
		b.pos = 0
		if p.c != nil {
			p.c.Probe("simpool/recycled")
		}
	} else {
		p.nextID++
		b = &simBuf{pool: p, id: p.nextID}
	}
	if p.c != nil {
		p.c.Event("pool.get id=%d", b.id)
	}
	return p.face(b)
}

func (p *SimBufferPool) PutBuffer(x io.ReadWriteSeeker) {
	if p.Gate != nil {
		p.Gate("put")
	}
	p.Puts++
	b := unwrapBuf(x)
	if b == nil || b.pool != p {
		p.Anomalies = append(p.Anomalies, fmt.Sprintf("foreign buffer %T returned to pool", x))
		return
	}
	if b.put {
		p.Anomalies = append(p.Anomalies, fmt.Sprintf("buffer %d put twice", b.id))
		return
	}
	if p.c != nil {
		p.c.Event("pool.put id=%d len=%d", b.id, len(b.data))
	}
	b.put = true
	// poison so that a use after Put yields recognisable garbage
	for i := range b.data {
		b.data[i] = 0xDB
	}
	if p.cfg.Recycle {
		p.free = append(p.free, b)
	}
}

// Outstanding is the number of buffers acquired and not yet returned.
func (p *SimBufferPool) Outstanding() int { return p.Gets - p.Puts }

func (b *simBuf) check(op string) {
	if b.put {
		b.pool.Anomalies = append(b.pool.Anomalies, fmt.Sprintf("buffer %d: %s after PutBuffer", b.id, op))
	}
}

func (b *simBuf) Write(p []byte) (int, error) {
	b.check("Write")
	end := b.pos + int64(len(p))
	if end > int64(len(b.data)) {
		if end > int64(cap(b.data)) {
			nd := make([]byte, end, end*2)
			copy(nd, b.data)
			b.data = nd
		} else {
			b.data = b.data[:end]
		}
	}
	copy(b.data[b.pos:], p)
	b.pos = end
	return len(p), nil
}

func (b *simBuf) Read(p []byte) (int, error) {
	b.check("Read")
	if len(p) == 0 {
		return 0, nil
	}
	if b.pos >= int64(len(b.data)) {
		return 0, io.EOF
	}
	n := len(p)
	if c := b.pool.cfg.ReadChunk; c > 0 && n > c {
		n = c
	}
	n = copy(p[:n], b.data[b.pos:])
	b.pos += int64(n)
	if b.pool.cfg.EOFWithData && b.pos >= int64(len(b.data)) {
		return n, io.EOF
	}
	return n, nil
}

func (b *simBuf) Seek(offset int64, whence int) (int64, error) {
	b.check("Seek")
	var pos int64
	switch whence {
	case io.SeekStart:
		pos = offset
	case io.SeekCurrent:
		pos = b.pos + offset
	case io.SeekEnd:
		pos = int64(len(b.data)) + offset
	default:
		return 0, fmt.Errorf("simbuf: invalid whence %d", whence)
	}
	if pos < 0 {
		return 0, fmt.Errorf("simbuf: negative position")
	}
	b.pos = pos
	return pos, nil
}

func (b *simBuf) writeTo(w io.Writer) (int64, error) {
	b.check("WriteTo")
	var total int64
	for b.pos < int64(len(b.data)) {
		end := int64(len(b.data))
		if c := int64(b.pool.cfg.ReadChunk); c > 0 && end-b.pos > c {
			end = b.pos + c
		}
		n, err := w.Write(b.data[b.pos:end])
		total += int64(n)
		b.pos += int64(n)
		if err != nil {
			return total, err
		}
		if n == 0 {
			return total, io.ErrShortWrite
		}
	}
	return total, nil
}

func (b *simBuf) readFrom(r io.Reader) (int64, error) {
	b.check("ReadFrom")
	var total int64
	buf := make([]byte, 251)
	for {
		n, err := r.Read(buf)
		if n > 0 {
			b.Write(buf[:n])
			total += int64(n)
		}
		if err == io.EOF {
			return total, nil
		}
		if err != nil {
			return total, err
		}
	}
}
