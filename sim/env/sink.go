// Package env holds the simulated storage seams: the destination io.Writer
// (SimSink), the source io.ReaderAt (SimFile), page buffer pools
// (SimBufferPool) and row sources.
package env

import (
	"errors"
	"fmt"
	"io"

	"pqsim/core"
)

// ErrInjected is the error every injected fault returns.
var ErrInjected = errors.New("pqsim: injected I/O fault")

// Sink fault kinds.
const (
	SinkErr          = "sink/err"            // n=0, err
	SinkTorn         = "sink/torn"           // 0<n<len, err (degenerates to err when len==1 at the offset)
	SinkErrAfterFull = "sink/err-after-full" // n=len, err
	SinkShortNoErr   = "sink/short-noerr"    // n<len, nil (contract violation named by C14)
)

var SinkKinds = []string{SinkErr, SinkTorn, SinkErrAfterFull, SinkShortNoErr}

// SinkFault fires in the first Write call that covers byte offset AtByte of
// the stream of bytes *offered* to the sink.
type SinkFault struct {
	Kind   string `json:"kind"`
	AtByte int64  `json:"at_byte"`
	Sticky bool   `json:"sticky"`
}

// SinkFaces selects which optional interfaces the sink exposes; the library
// and io.Copy take different paths depending on them.
type SinkFaces struct {
	ReaderFrom   bool `json:"reader_from,omitempty"`
	StringWriter bool `json:"string_writer,omitempty"`
}

type sinkCore struct {
	c       *core.Ctx
	Buf     []byte // accepted bytes
	Offered int64  // bytes offered so far (sum of len(p))
	Calls   int
	Bounds  []int64 // offered offset at the start of every call
	fault   *SinkFault
	Fired   int
	dead    bool // sticky fault fired
	Errs    int  // number of calls that returned an error
}

func (s *sinkCore) Write(p []byte) (int, error) {
	s.Calls++
	s.Bounds = append(s.Bounds, s.Offered)
	start := s.Offered
	s.Offered += int64(len(p))
	if s.dead {
		s.Errs++
		if s.c != nil {
			s.c.Event("sink.write len=%d -> dead", len(p))
		}
		return 0, ErrInjected
	}
	if f := s.fault; f != nil && (s.Fired == 0) && f.AtByte >= start && f.AtByte < start+int64(len(p)) {
		s.Fired++
		k := int(f.AtByte - start)
		if s.c != nil {
			s.c.Fault(f.Kind)
			s.c.Event("sink.write len=%d FAULT %s k=%d", len(p), f.Kind, k)
		}
		if f.Sticky && f.Kind != SinkShortNoErr {
			s.dead = true
		}
		switch f.Kind {
		case SinkErr:
			s.Errs++
			return 0, ErrInjected
		case SinkTorn:
			s.Buf = append(s.Buf, p[:k]...)
			s.Errs++
			return k, ErrInjected
		case SinkErrAfterFull:
			s.Buf = append(s.Buf, p...)
			s.Errs++
			return len(p), ErrInjected
		case SinkShortNoErr:
			s.Buf = append(s.Buf, p[:k]...)
			return k, nil
		default:
			panic("unknown sink fault kind " + f.Kind)
		}
	}
	s.Buf = append(s.Buf, p...)
	if s.c != nil {
		s.c.Event("sink.write len=%d", len(p))
	}
	return len(p), nil
}

// SimSink is the simulated destination.
type SimSink struct{ sinkCore }

type sinkRF struct{ *SimSink }
type sinkSW struct{ *SimSink }
type sinkRFSW struct{ *SimSink }

func (s sinkRF) ReadFrom(r io.Reader) (int64, error)   { return s.readFrom(r) }
func (s sinkRFSW) ReadFrom(r io.Reader) (int64, error) { return s.readFrom(r) }
func (s sinkSW) WriteString(x string) (int, error)     { return s.Write([]byte(x)) }
func (s sinkRFSW) WriteString(x string) (int, error)   { return s.Write([]byte(x)) }

func (s *SimSink) readFrom(r io.Reader) (int64, error) {
	var total int64
	buf := make([]byte, 509) // odd size on purpose
	for {
		n, rerr := r.Read(buf)
		if n > 0 {
			m, werr := s.Write(buf[:n])
			total += int64(m)
			if werr != nil {
				return total, werr
			}
			if m < n {
				return total, io.ErrShortWrite
			}
		}
		if rerr == io.EOF {
			return total, nil
		}
		if rerr != nil {
			return total, rerr
		}
	}
}

// NewSink returns the sink and the io.Writer face to hand to the library.
func NewSink(c *core.Ctx, faces SinkFaces, fault *SinkFault) (*SimSink, io.Writer) {
	s := &SimSink{sinkCore{c: c, fault: fault}}
	switch {
	case faces.ReaderFrom && faces.StringWriter:
		return s, sinkRFSW{s}
	case faces.ReaderFrom:
		return s, sinkRF{s}
	case faces.StringWriter:
		return s, sinkSW{s}
	}
	return s, s
}

func (s *SimSink) Bytes() []byte { return s.Buf }

func (f *SinkFault) String() string {
	if f == nil {
		return "none"
	}
	return fmt.Sprintf("%s@%d sticky=%v", f.Kind, f.AtByte, f.Sticky)
}
