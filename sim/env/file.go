package env

import (
	"fmt"
	"io"

	"pqsim/core"
)

// Source fault kinds.
const (
	SrcErr      = "src/err"       // (0, err)
	SrcShortErr = "src/short+err" // (k<len, err)
	SrcShortEOF = "src/short+EOF" // (k<len, io.EOF) although the bytes exist: premature end
	SrcLenEOF   = "src/len+EOF"   // (len, io.EOF): legal, must change nothing
)

var SrcKinds = []string{SrcErr, SrcShortErr, SrcShortEOF}

// SrcFault fires at the ReadAt call with index Call (0-based, counted from
// the moment the fault is armed). Cut is the number of bytes delivered for the
// short kinds (clamped to len-1); CutAbs, when >= 0, instead cuts at that
// absolute file offset if it lies inside the requested range.
type SrcFault struct {
	Kind   string `json:"kind"`
	Call   int    `json:"call"`
	Cut    int    `json:"cut"`
	CutAbs int64  `json:"cut_abs"`
	Sticky bool   `json:"sticky"`
}

type ReadCall struct {
	Off int64
	Len int
	N   int
}

// SimFile is the simulated source io.ReaderAt.
type SimFile struct {
	c      *core.Ctx
	Data   []byte
	Calls  []ReadCall
	NCalls int
	Log    bool // keep Calls
	// EOFStyle: when a read ends exactly at the end of the file, return
	// (n, io.EOF) (true) or (n, nil) (false). Both are legal.
	EOFAtEnd bool
	fault    *SrcFault
	armedAt  int
	Fired    int
	dead     bool
	// Gate, when set, is called before every ReadAt (scheduler yield point).
	Gate func(off int64, n int)
}

func NewFile(c *core.Ctx, data []byte) *SimFile {
	return &SimFile{c: c, Data: data}
}

func (f *SimFile) Size() int64 { return int64(len(f.Data)) }

// Arm installs a fault counted from the next call.
func (f *SimFile) Arm(fault *SrcFault) {
	f.fault = fault
	f.armedAt = f.NCalls
	f.Fired = 0
	f.dead = false
}

func (f *SimFile) ReadAt(p []byte, off int64) (int, error) {
	if f.Gate != nil {
		f.Gate(off, len(p))
	}
	idx := f.NCalls
	f.NCalls++
	if f.dead {
		if f.c != nil {
			f.c.Event("file.readat off=%d len=%d -> dead", off, len(p))
		}
		return 0, ErrInjected
	}
	if off < 0 {
		return 0, fmt.Errorf("simfile: negative offset")
	}
	if off >= int64(len(f.Data)) {
		if f.c != nil {
			f.c.Event("file.readat off=%d len=%d -> EOF", off, len(p))
		}
		f.record(off, len(p), 0)
		if len(p) == 0 {
			return 0, nil
		}
		return 0, io.EOF
	}
	avail := len(f.Data) - int(off)
	n := len(p)
	var err error
	if n > avail {
		n = avail
		err = io.EOF
	} else if n == avail && f.EOFAtEnd {
		err = io.EOF
	}
	if ft := f.fault; ft != nil && f.Fired == 0 && idx-f.armedAt == ft.Call {
		f.Fired++
		if ft.Sticky {
			f.dead = true
		}
		cut := ft.Cut
		if ft.CutAbs >= 0 && ft.CutAbs > off && ft.CutAbs < off+int64(n) {
			cut = int(ft.CutAbs - off)
		}
		if cut >= n {
			cut = n - 1
		}
		if cut < 0 {
			cut = 0
		}
		if f.c != nil {
			f.c.Fault(ft.Kind)
			f.c.Event("file.readat off=%d len=%d FAULT %s cut=%d", off, len(p), ft.Kind, cut)
		}
		switch ft.Kind {
		case SrcErr:
			f.record(off, len(p), 0)
			return 0, ErrInjected
		case SrcShortErr:
			copy(p[:cut], f.Data[off:])
			f.record(off, len(p), cut)
			return cut, ErrInjected
		case SrcShortEOF:
			copy(p[:cut], f.Data[off:])
			f.record(off, len(p), cut)
			return cut, io.EOF
		case SrcLenEOF:
			copy(p[:n], f.Data[off:])
			f.record(off, len(p), n)
			return n, io.EOF
		default:
			panic("unknown source fault kind " + ft.Kind)
		}
	}
	copy(p[:n], f.Data[off:])
	if f.c != nil {
		f.c.Event("file.readat off=%d len=%d n=%d", off, len(p), n)
	}
	f.record(off, len(p), n)
	return n, err
}

func (f *SimFile) record(off int64, l, n int) {
	if f.Log {
		f.Calls = append(f.Calls, ReadCall{off, l, n})
	}
}
