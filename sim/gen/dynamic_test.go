package gen

import (
	"bytes"
	"fmt"
	"os"
	"strconv"
	"testing"

	"github.com/parquet-go/parquet-go"
)

// TestDynShapes is a triage aid: PQSIM_DYN=<n> round-trips n dynamic shapes
// through every writer kind on default options.
func TestDynShapes(t *testing.T) {
	n, _ := strconv.Atoi(os.Getenv("PQSIM_DYN"))
	if n == 0 {
		t.Skip()
	}
	bad := 0
	for seed := 0; seed < n && bad < 10; seed++ {
		func() {
			defer func() {
				if p := recover(); p != nil {
					bad++
					t.Errorf("seed %d: panic %v\n%s", seed, p, typeString(seed))
				}
			}()
			sh := DynShape(uint64(seed), seed%2 == 0)
			d := sh.Make(uint64(seed)+7, 50, Profile(seed%3))
			for _, kind := range WriterKinds {
				var buf bytes.Buffer
				w := sh.NewWriter(kind, &buf)
				if _, err := w.Write(d, 0, d.Len()); err != nil {
					t.Errorf("seed %d %s write: %v", seed, kind, err)
					bad++
					return
				}
				if err := w.Close(); err != nil {
					t.Errorf("seed %d %s close: %v", seed, kind, err)
					bad++
					return
				}
				f, err := parquet.OpenFile(bytes.NewReader(buf.Bytes()), int64(buf.Len()))
				if err != nil {
					t.Errorf("seed %d %s open: %v", seed, kind, err)
					bad++
					return
				}
				if !sh.HasMap() {
					rows := make([]parquet.Row, d.Len()+1)
					r := f.RowGroups()[0].Rows()
					m := 0
					for m < d.Len() {
						k, err := r.ReadRows(rows[m:])
						m += k
						if err != nil {
							break
						}
					}
					r.Close()
					if m != d.Len() {
						t.Errorf("seed %d %s: %d rows", seed, kind, m)
						bad++
						return
					}
					for i := 0; i < m; i++ {
						if diff := RowDiff(d.Rows()[i], rows[i]); diff != "" {
							t.Errorf("seed %d %s row %d: %s\n%s", seed, kind, i, diff, typeString(seed))
							bad++
							return
						}
					}
				}
				vals, _, err := sh.ReadAll(bytes.NewReader(buf.Bytes()), int64(buf.Len()))
				if err != nil || len(vals) != d.Len() {
					t.Errorf("seed %d %s readall: %d %v\n%s", seed, kind, len(vals), err, typeString(seed))
					bad++
					return
				}
				for i := range vals {
					if !sh.EqualValues(d.Value(i), vals[i]) {
						t.Errorf("seed %d %s value %d differs:\n want %+v\n got  %+v\n%s", seed, kind, i, d.Value(i), vals[i], typeString(seed))
						bad++
						return
					}
				}
			}
		}()
	}
}

func typeString(seed int) string {
	defer func() { recover() }()
	return fmt.Sprint(DynShape(uint64(seed), seed%2 == 0).(*dynShape).typ)
}
