package gen

import (
	"io"
	"time"

	"github.com/parquet-go/parquet-go"
	"github.com/parquet-go/parquet-go/deprecated"

	"pqsim/tape"
)

// ---- static row types ------------------------------------------------------

type Flat struct {
	ID  int64   `parquet:"id"`
	I32 int32   `parquet:"i32"`
	U32 uint32  `parquet:"u32"`
	U64 uint64  `parquet:"u64"`
	F32 float32 `parquet:"f32"`
	F64 float64 `parquet:"f64"`
	B   bool    `parquet:"b"`
	S   string  `parquet:"s,dict"`
	Bin []byte  `parquet:"bin"`
	OI  *int64  `parquet:"oi"`
	OS  *string `parquet:"os,dict"`
	ZS  string  `parquet:"zs,optional"`
	DI  int64   `parquet:"di,dict"`
}

type Point struct {
	X float64 `parquet:"x"`
	Y *int32  `parquet:"y"`
}

type Inner struct {
	A int32    `parquet:"a,optional"`
	L []string `parquet:"l,dict"`
	D float64  `parquet:"d"`
}

type Nested struct {
	ID   int64    `parquet:"id"`
	Tags []string `parquet:"tags,list"`
	Nums []int64  `parquet:"nums"`
	Pts  []Point  `parquet:"pts"`
	In   Inner    `parquet:"in"`
	OIn  *Inner   `parquet:"oin"`
	Name *string  `parquet:"name,dict"`
}

type Logical struct {
	ID  int64            `parquet:"id"`
	U   [16]byte         `parquet:"u,uuid"`
	FL  [5]byte          `parquet:"fl"`
	Dec int64            `parquet:"dec,decimal(2:18)"`
	D   int32            `parquet:"d,date"`
	TS  time.Time        `parquet:"ts,timestamp(microsecond)"`
	I96 deprecated.Int96 `parquet:"i96"`
	E   string           `parquet:"e,enum"`
	I8  int8             `parquet:"i8"`
	U16 uint16           `parquet:"u16"`
	OB  *bool            `parquet:"ob"`
	OF  *float32         `parquet:"of"`
	OFL *[16]byte        `parquet:"ofl"`
	OTS time.Time        `parquet:"ots,optional,timestamp(microsecond)"` // zero time = null, in runs
}

type MapT struct {
	ID int64            `parquet:"id"`
	M  map[string]int64 `parquet:"m"`
	S  string           `parquet:"s"`
}

// Keyed is the row type of merge/sort scenarios. Src and Seq identify the
// input a row came from and its position there; Sum is a checksum over the
// other columns so a row torn across columns is detected.
type Keyed struct {
	K    int64   `parquet:"k"`
	K2   *string `parquet:"k2"`
	F    float64 `parquet:"f"`
	Src  int32   `parquet:"src"`
	Seq  int64   `parquet:"seq"`
	Pay  string  `parquet:"pay"`
	Tags []int32 `parquet:"tags"`
	Sum  uint64  `parquet:"sum"`
	G    *KeyedG `parquet:"g"` // an optional leaf inside an optional group: nulls at two definition levels
}

type KeyedG struct {
	V *int64 `parquet:"v"`
}

func ptr[T any](v T) *T { return &v }

func genFlat(r *tape.Rng, id int64, p Profile) Flat {
	f := Flat{
		ID:  id,
		I32: Int32(r, p),
		U32: Uint32(r, p),
		U64: Uint64(r, p),
		F32: Float32(r, p),
		F64: Float64(r, p),
		B:   r.Bool(),
		S:   String(r, p),
		Bin: Bytes(r, p),
		DI:  Int64(r, p),
	}
	if r.Intn(3) > 0 {
		f.OI = ptr(Int64(r, p))
	}
	if r.Intn(3) > 0 {
		f.OS = ptr(String(r, p))
	}
	if r.Bool() {
		f.ZS = String(r, p)
	}
	return f
}

func genInner(r *tape.Rng, p Profile) Inner {
	in := Inner{D: Float64(r, p)}
	if r.Bool() {
		in.A = Int32(r, p)
	}
	for n := lenSmall(r); n > 0; n-- {
		in.L = append(in.L, String(r, p))
	}
	return in
}

func lenSmall(r *tape.Rng) int {
	switch r.Intn(8) {
	case 0, 1, 2:
		return 0
	case 3, 4:
		return 1
	case 5:
		return 2 + r.Intn(3)
	case 6:
		return r.Intn(12)
	}
	return r.Intn(60)
}

func genNested(r *tape.Rng, id int64, p Profile) Nested {
	n := Nested{ID: id, In: genInner(r, p)}
	for k := lenSmall(r); k > 0; k-- {
		n.Tags = append(n.Tags, String(r, p))
	}
	for k := lenSmall(r); k > 0; k-- {
		n.Nums = append(n.Nums, Int64(r, p))
	}
	for k := lenSmall(r); k > 0; k-- {
		pt := Point{X: Float64(r, p)}
		if r.Bool() {
			pt.Y = ptr(Int32(r, p))
		}
		n.Pts = append(n.Pts, pt)
	}
	if r.Bool() {
		in := genInner(r, p)
		n.OIn = &in
	}
	if r.Intn(3) > 0 {
		n.Name = ptr(String(r, p))
	}
	return n
}

var enumWords = []string{"RED", "GREEN", "BLUE", "", "A_VERY_LONG_ENUM_NAME"}

func genLogical(r *tape.Rng, id int64, p Profile) Logical {
	l := Logical{
		ID:  id,
		Dec: Int64(r, p),
		D:   Int32(r, p),
		E:   enumWords[r.Intn(len(enumWords))],
		I8:  int8(Int32(r, p)),
		U16: uint16(Uint32(r, p)),
	}
	Fixed(r, p, l.U[:])
	Fixed(r, p, l.FL[:])
	// timestamps at microsecond precision inside a range every unit can represent
	us := int64(r.Uint64()%(1<<52)) - (1 << 51)
	if p == 0 {
		us = int64(r.Intn(12)) * 1000
	}
	l.TS = time.UnixMicro(us).UTC()
	l.I96 = deprecated.Int96{uint32(r.Uint64()), uint32(r.Uint64()), uint32(r.Uint64())}
	if p == 0 {
		l.I96 = deprecated.Int96{uint32(r.Intn(5)), 0, 0}
	}
	if r.Bool() {
		l.OB = ptr(r.Bool())
	}
	if r.Bool() {
		l.OF = ptr(Float32(r, p))
	}
	if r.Bool() {
		var u [16]byte
		Fixed(r, p, u[:])
		l.OFL = &u
	}
	// present in runs and absent in runs (the id decides, so neighbours agree)
	if (id/int64(1+r.Intn(2)))%3 == 0 {
		l.OTS = time.UnixMicro(int64(r.Uint64() % (1 << 40))).UTC()
	}
	return l
}

func genMapT(r *tape.Rng, id int64, p Profile) MapT {
	m := MapT{ID: id, S: String(r, p)}
	if k := lenSmall(r); k > 0 {
		m.M = map[string]int64{}
		for ; k > 0; k-- {
			m.M[String(r, p)] = Int64(r, p)
		}
	}
	return m
}

// ---- generic shape plumbing -------------------------------------------------

// Data is a generated row list: typed Go values plus their model rows.
type Data interface {
	Len() int
	Rows() []parquet.Row // model rows (from Schema.Deconstruct), not to be modified
	Value(i int) any     // the typed Go value
}

// Writer abstracts over GenericWriter[T] / SortingWriter[T] / Writer.
type Writer interface {
	Write(d Data, lo, hi int) (int, error)
	WriteRows(rows []parquet.Row) (int, error)
	WriteRowGroup(rg parquet.RowGroup) (int64, error)
	Flush() error
	Close() error
	Reset(io.Writer)
	SetKeyValueMetadata(k, v string)
	Schema() *parquet.Schema
	Raw() any
}

// Buffer abstracts over GenericBuffer[T] / Buffer / RowBuffer[T].
type Buffer interface {
	parquet.RowGroup
	Write(d Data, lo, hi int) (int, error)
	WriteRows(rows []parquet.Row) (int, error)
	Reset()
	Len() int
	Less(i, j int) bool
	Swap(i, j int)
}

// TypedReader abstracts over GenericReader[T].
type TypedReader interface {
	// Read reads up to n typed values and returns them deconstructed into
	// rows plus the typed values themselves.
	Read(n int) (vals []any, rows []parquet.Row, err error)
	ReadRows(rows []parquet.Row) (int, error)
	SeekToRow(int64) error
	NumRows() int64
	Close() error
	Reset()
}

type Shape interface {
	Name() string
	Schema() *parquet.Schema
	HasMap() bool
	Make(seed uint64, n int, p Profile) Data
	NewWriter(kind string, out io.Writer, opts ...parquet.WriterOption) Writer
	NewSortingWriter(out io.Writer, sortRowCount int64, opts ...parquet.WriterOption) Writer
	NewBuffer(kind string, opts ...parquet.RowGroupOption) Buffer
	NewReader(in io.ReaderAt, opts ...parquet.ReaderOption) TypedReader
	NewRowGroupReader(rg parquet.RowGroup, opts ...parquet.ReaderOption) TypedReader
	ReadAll(in io.ReaderAt, size int64) (vals []any, rows []parquet.Row, err error)
	Deconstruct(v any) parquet.Row
	EqualValues(a, b any) bool
}

// Writer kinds.
const (
	WGeneric = "generic" // GenericWriter[T].Write([]T)
	WReflect = "reflect" // Writer.Write(any), one row at a time
	WAny     = "any"     // GenericWriter[any] with an explicit schema
	WRows    = "rows"    // GenericWriter[T].WriteRows(pre-shredded rows)
	WFilter  = "filter"  // FilterRowWriter(GenericWriter[T], always true).WriteRows(the caller's own rows)
	WMixed   = "mixed"   // GenericWriter[T]: WriteRows and Write in turn on the same writer
)

var WriterKinds = []string{WGeneric, WReflect, WAny, WRows, WFilter, WMixed}

// Buffer kinds.
const (
	BGeneric = "generic" // GenericBuffer[T]
	BUntyped = "untyped" // Buffer (Write(any))
	BRow     = "row"     // RowBuffer[T]
)

var BufferKinds = []string{BGeneric, BUntyped, BRow}

type shape[T any] struct {
	name   string
	schema *parquet.Schema
	hasMap bool
	gen    func(r *tape.Rng, id int64, p Profile) T
}

func newShape[T any](name string, hasMap bool, gen func(r *tape.Rng, id int64, p Profile) T) *shape[T] {
	return &shape[T]{name: name, schema: parquet.SchemaOf(new(T)), hasMap: hasMap, gen: gen}
}

func (s *shape[T]) Name() string            { return s.name }
func (s *shape[T]) Schema() *parquet.Schema { return s.schema }
func (s *shape[T]) HasMap() bool            { return s.hasMap }

type data[T any] struct {
	sh   *shape[T]
	vals []T
	rows []parquet.Row
}

func (d *data[T]) Len() int            { return len(d.vals) }
func (d *data[T]) Rows() []parquet.Row { return d.rows }
func (d *data[T]) Value(i int) any     { return d.vals[i] }

func (s *shape[T]) Make(seed uint64, n int, p Profile) Data {
	r := tape.NewRng(seed)
	d := &data[T]{sh: s, vals: make([]T, n), rows: make([]parquet.Row, n)}
	for i := range d.vals {
		d.vals[i] = s.gen(r, int64(i), p)
		d.rows[i] = s.schema.Deconstruct(nil, d.vals[i])
	}
	return d
}

// FromValues wraps existing typed values (used by merge/sort scenarios that
// build their rows themselves).
func FromValues[T any](sh Shape, vals []T) Data {
	s := sh.(*shape[T])
	d := &data[T]{sh: s, vals: vals, rows: make([]parquet.Row, len(vals))}
	for i := range vals {
		d.rows[i] = s.schema.Deconstruct(nil, vals[i])
	}
	return d
}

func (s *shape[T]) Deconstruct(v any) parquet.Row { return s.schema.Deconstruct(nil, v) }

func (s *shape[T]) EqualValues(a, b any) bool { return normEqual(a, b) }

// ---- writers ----

type genericWriter[T any] struct {
	w      *parquet.GenericWriter[T]
	rows   bool
	filter parquet.RowWriter
	mixed  bool
	calls  int
}

func (g *genericWriter[T]) Write(d Data, lo, hi int) (int, error) {
	dd := d.(*data[T])
	if g.filter != nil {
		// the caller's own rows, not copies: they must come back untouched
		return g.filter.WriteRows(dd.rows[lo:hi])
	}
	g.calls++
	if g.rows || (g.mixed && g.calls%2 == 1) {
		rows := cloneRows(dd.rows[lo:hi])
		n, err := g.w.WriteRows(rows)
		Scribble(rows) // ours: the writer must have copied what it needs
		return n, err
	}
	return g.w.Write(dd.vals[lo:hi])
}
func (g *genericWriter[T]) WriteRows(rows []parquet.Row) (int, error) { return g.w.WriteRows(rows) }
func (g *genericWriter[T]) WriteRowGroup(rg parquet.RowGroup) (int64, error) {
	return g.w.WriteRowGroup(rg)
}
func (g *genericWriter[T]) Flush() error                    { return g.w.Flush() }
func (g *genericWriter[T]) Close() error                    { return g.w.Close() }
func (g *genericWriter[T]) Reset(o io.Writer)               { g.w.Reset(o) }
func (g *genericWriter[T]) SetKeyValueMetadata(k, v string) { g.w.SetKeyValueMetadata(k, v) }
func (g *genericWriter[T]) Schema() *parquet.Schema         { return g.w.Schema() }
func (g *genericWriter[T]) Raw() any                        { return g.w }

type anyWriter[T any] struct {
	w *parquet.GenericWriter[any]
}

func (g *anyWriter[T]) Write(d Data, lo, hi int) (int, error) {
	dd := d.(*data[T])
	vals := make([]any, hi-lo)
	for i := range vals {
		vals[i] = dd.vals[lo+i]
	}
	return g.w.Write(vals)
}
func (g *anyWriter[T]) WriteRows(rows []parquet.Row) (int, error) { return g.w.WriteRows(rows) }
func (g *anyWriter[T]) WriteRowGroup(rg parquet.RowGroup) (int64, error) {
	return g.w.WriteRowGroup(rg)
}
func (g *anyWriter[T]) Flush() error                    { return g.w.Flush() }
func (g *anyWriter[T]) Close() error                    { return g.w.Close() }
func (g *anyWriter[T]) Reset(o io.Writer)               { g.w.Reset(o) }
func (g *anyWriter[T]) SetKeyValueMetadata(k, v string) { g.w.SetKeyValueMetadata(k, v) }
func (g *anyWriter[T]) Schema() *parquet.Schema         { return g.w.Schema() }
func (g *anyWriter[T]) Raw() any                        { return g.w }

type reflectWriter[T any] struct {
	w *parquet.Writer
}

func (g *reflectWriter[T]) Write(d Data, lo, hi int) (int, error) {
	dd := d.(*data[T])
	for i := lo; i < hi; i++ {
		var err error
		if i&1 == 0 {
			err = g.w.Write(&dd.vals[i])
		} else {
			err = g.w.Write(dd.vals[i])
		}
		if err != nil {
			return i - lo, err
		}
	}
	return hi - lo, nil
}
func (g *reflectWriter[T]) WriteRows(rows []parquet.Row) (int, error) { return g.w.WriteRows(rows) }
func (g *reflectWriter[T]) WriteRowGroup(rg parquet.RowGroup) (int64, error) {
	return g.w.WriteRowGroup(rg)
}
func (g *reflectWriter[T]) Flush() error                    { return g.w.Flush() }
func (g *reflectWriter[T]) Close() error                    { return g.w.Close() }
func (g *reflectWriter[T]) Reset(o io.Writer)               { g.w.Reset(o) }
func (g *reflectWriter[T]) SetKeyValueMetadata(k, v string) { g.w.SetKeyValueMetadata(k, v) }
func (g *reflectWriter[T]) Schema() *parquet.Schema         { return g.w.Schema() }
func (g *reflectWriter[T]) Raw() any                        { return g.w }

type sortingWriter[T any] struct {
	w *parquet.SortingWriter[T]
}

func (g *sortingWriter[T]) Write(d Data, lo, hi int) (int, error) {
	return g.w.Write(d.(*data[T]).vals[lo:hi])
}
func (g *sortingWriter[T]) WriteRows(rows []parquet.Row) (int, error) { return g.w.WriteRows(rows) }
func (g *sortingWriter[T]) WriteRowGroup(rg parquet.RowGroup) (int64, error) {
	// a SortingWriter has no WriteRowGroup: the rows are copied
	return parquet.CopyRows(g.w, rg.Rows())
}
func (g *sortingWriter[T]) Flush() error                    { return g.w.Flush() }
func (g *sortingWriter[T]) Close() error                    { return g.w.Close() }
func (g *sortingWriter[T]) Reset(o io.Writer)               { g.w.Reset(o) }
func (g *sortingWriter[T]) SetKeyValueMetadata(k, v string) { g.w.SetKeyValueMetadata(k, v) }
func (g *sortingWriter[T]) Schema() *parquet.Schema         { return g.w.Schema() }
func (g *sortingWriter[T]) Raw() any                        { return g.w }

func cloneRows(rows []parquet.Row) []parquet.Row {
	out := make([]parquet.Row, len(rows))
	for i, r := range rows {
		out[i] = r.Clone()
	}
	return out
}

func (s *shape[T]) NewWriter(kind string, out io.Writer, opts ...parquet.WriterOption) Writer {
	switch kind {
	case WGeneric:
		return &genericWriter[T]{w: parquet.NewGenericWriter[T](out, opts...)}
	case WRows:
		return &genericWriter[T]{w: parquet.NewGenericWriter[T](out, opts...), rows: true}
	case WMixed:
		return &genericWriter[T]{w: parquet.NewGenericWriter[T](out, opts...), mixed: true}
	case WFilter:
		w := parquet.NewGenericWriter[T](out, opts...)
		return &genericWriter[T]{w: w, filter: parquet.FilterRowWriter(w, func(parquet.Row) bool { return true })}
	case WAny:
		o := append([]parquet.WriterOption{s.schema}, opts...)
		return &anyWriter[T]{w: parquet.NewGenericWriter[any](out, o...)}
	case WReflect:
		o := append([]parquet.WriterOption{s.schema}, opts...)
		return &reflectWriter[T]{w: parquet.NewWriter(out, o...)}
	}
	panic("unknown writer kind " + kind)
}

func (s *shape[T]) NewSortingWriter(out io.Writer, sortRowCount int64, opts ...parquet.WriterOption) Writer {
	return &sortingWriter[T]{w: parquet.NewSortingWriter[T](out, sortRowCount, opts...)}
}

// ---- buffers ----

type genericBuffer[T any] struct {
	*parquet.GenericBuffer[T]
}

func (b genericBuffer[T]) Write(d Data, lo, hi int) (int, error) {
	return b.GenericBuffer.Write(d.(*data[T]).vals[lo:hi])
}

type untypedBuffer[T any] struct {
	*parquet.Buffer
}

func (b untypedBuffer[T]) Write(d Data, lo, hi int) (int, error) {
	dd := d.(*data[T])
	for i := lo; i < hi; i++ {
		if err := b.Buffer.Write(dd.vals[i]); err != nil {
			return i - lo, err
		}
	}
	return hi - lo, nil
}

type rowBuffer[T any] struct {
	*parquet.RowBuffer[T]
}

func (b rowBuffer[T]) Write(d Data, lo, hi int) (int, error) {
	return b.RowBuffer.Write(d.(*data[T]).vals[lo:hi])
}

func (s *shape[T]) NewBuffer(kind string, opts ...parquet.RowGroupOption) Buffer {
	switch kind {
	case BGeneric:
		return genericBuffer[T]{parquet.NewGenericBuffer[T](opts...)}
	case BUntyped:
		o := append([]parquet.RowGroupOption{s.schema}, opts...)
		return untypedBuffer[T]{parquet.NewBuffer(o...)}
	case BRow:
		return rowBuffer[T]{parquet.NewRowBuffer[T](opts...)}
	}
	panic("unknown buffer kind " + kind)
}

// ---- readers ----

type typedReader[T any] struct {
	sh  *shape[T]
	r   *parquet.GenericReader[T]
	buf []T // reused across calls like an application's batch slice: slots keep the previous batch's values
}

func (t *typedReader[T]) Read(n int) ([]any, []parquet.Row, error) {
	if cap(t.buf) < n {
		nb := make([]T, n)
		copy(nb, t.buf[:cap(t.buf)])
		t.buf = nb
	}
	buf := t.buf[:n]
	m, err := t.r.Read(buf)
	vals := make([]any, m)
	rows := make([]parquet.Row, m)
	for i := 0; i < m; i++ {
		vals[i] = buf[i]
		rows[i] = t.sh.schema.Deconstruct(nil, buf[i])
	}
	return vals, rows, err
}
func (t *typedReader[T]) ReadRows(rows []parquet.Row) (int, error) { return t.r.ReadRows(rows) }
func (t *typedReader[T]) SeekToRow(i int64) error                  { return t.r.SeekToRow(i) }
func (t *typedReader[T]) NumRows() int64                           { return t.r.NumRows() }
func (t *typedReader[T]) Close() error                             { return t.r.Close() }
func (t *typedReader[T]) Reset()                                   { t.r.Reset() }

func (s *shape[T]) NewReader(in io.ReaderAt, opts ...parquet.ReaderOption) TypedReader {
	return &typedReader[T]{sh: s, r: parquet.NewGenericReader[T](in, opts...)}
}

func (s *shape[T]) NewRowGroupReader(rg parquet.RowGroup, opts ...parquet.ReaderOption) TypedReader {
	return &typedReader[T]{sh: s, r: parquet.NewGenericRowGroupReader[T](rg, opts...)}
}

func (s *shape[T]) ReadAll(in io.ReaderAt, size int64) ([]any, []parquet.Row, error) {
	vs, err := parquet.Read[T](in, size)
	vals := make([]any, len(vs))
	rows := make([]parquet.Row, len(vs))
	for i := range vs {
		vals[i] = vs[i]
		rows[i] = s.schema.Deconstruct(nil, vs[i])
	}
	return vals, rows, err
}

// ---- catalogue ----

var (
	ShapeFlat    Shape = newShape[Flat]("flat", false, genFlat)
	ShapeNested  Shape = newShape[Nested]("nested", false, genNested)
	ShapeLogical Shape = newShape[Logical]("logical", false, genLogical)
	ShapeMap     Shape = newShape[MapT]("map", true, genMapT)
	ShapeKeyed   Shape = newShape[Keyed]("keyed", false, nil)
)

var Shapes = []Shape{ShapeFlat, ShapeNested, ShapeLogical, ShapeMap}

func ShapeByName(name string) Shape {
	for _, s := range Shapes {
		if s.Name() == name {
			return s
		}
	}
	if name == "keyed" {
		return ShapeKeyed
	}
	if isDynName(name) {
		return dynByName(name)
	}
	for _, s := range StaticGenShapes {
		if s.Name() == name {
			return s
		}
	}
	panic("unknown shape " + name)
}
