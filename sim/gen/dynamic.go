package gen

import (
	"fmt"
	"io"
	"reflect"
	"strconv"
	"strings"
	"sync"
	"time"

	"github.com/parquet-go/parquet-go"
	"github.com/parquet-go/parquet-go/deprecated"

	"pqsim/tape"
)

// Dynamic shapes: a Go struct type built from a seed with reflect.StructOf, so
// that the schema dimension of the properties is seeded generation too:
// required / optional (pointer or tag) / repeated / list / map / group nodes,
// nested up to three levels, over every physical and logical leaf type, with
// per-field encoding and compression tags. A dynamic shape is named
// "dyn:<seed>" in scenarios.

const (
	dynPrefix    = "dyn:"  // no map anywhere: rows have one defined serialisation
	dynMapPrefix = "dynm:" // maps allowed
)

// ShapeDyn and ShapeDynMap stand for "draw a dynamic shape" in shape lists.
var (
	ShapeDyn    Shape = &dynShape{name: "dyn:*"}
	ShapeDynMap Shape = &dynShape{name: "dynm:*"}
	// ShapeGen and ShapeGenMap stand for one of the static types emitted from
	// the dynamic generator (static_gen.go), without and with maps.
	ShapeGen    Shape = &dynShape{name: "gen:*"}
	ShapeGenMap Shape = &dynShape{name: "genm:*"}
)

// Resolve replaces a placeholder by a drawn dynamic shape.
func Resolve(t *tape.Tape, sh Shape) Shape {
	switch sh {
	case ShapeDyn:
		return DynShape(uint64(t.Draw(1<<20)), false)
	case ShapeDynMap:
		return DynShape(uint64(t.Draw(1<<20)), true)
	case ShapeGen, ShapeGenMap:
		var pick []Shape
		for _, g := range StaticGenShapes {
			if g.HasMap() == (sh == ShapeGenMap) {
				pick = append(pick, g)
			}
		}
		return pick[t.Draw(len(pick))]
	}
	return sh
}

type dynShape struct {
	name   string
	typ    reflect.Type
	schema *parquet.Schema
	hasMap bool
}

var (
	dynMu    sync.Mutex
	dynCache = map[string]*dynShape{}
)

// DynShape returns the dynamic shape of a seed.
func DynShape(seed uint64, maps bool) Shape {
	dynMu.Lock()
	defer dynMu.Unlock()
	name := dynPrefix + strconv.FormatUint(seed, 10)
	if maps {
		name = dynMapPrefix + strconv.FormatUint(seed, 10)
	}
	if s, ok := dynCache[name]; ok {
		return s
	}
	r := tape.NewRng(seed ^ 0x9e3779b97f4a7c15)
	g := &dynGen{r: r, maps: maps}
	typ := g.structType(0, true)
	s := &dynShape{name: name, typ: typ, hasMap: g.hasMap}
	s.schema = parquet.SchemaOf(reflect.New(typ).Interface())
	if len(dynCache) > 4096 {
		dynCache = map[string]*dynShape{}
	}
	dynCache[name] = s
	return s
}

func isDynName(name string) bool {
	return strings.HasPrefix(name, dynPrefix) || strings.HasPrefix(name, dynMapPrefix)
}

func dynByName(name string) Shape {
	maps := strings.HasPrefix(name, dynMapPrefix)
	seed, err := strconv.ParseUint(strings.TrimPrefix(strings.TrimPrefix(name, dynMapPrefix), dynPrefix), 10, 64)
	if err != nil {
		panic("bad dynamic shape name " + name)
	}
	return DynShape(seed, maps)
}

type dynGen struct {
	r      *tape.Rng
	maps   bool
	hasMap bool
	nLeaf  int
}

type dynLeaf struct {
	typ  reflect.Type
	tags []string // alternatives, one is picked; "" = none
	ptr  bool     // may be used behind a pointer
	opt  bool     // may carry the optional tag
	rep  bool     // may be the element of a slice
	encs []string
}

var (
	int96Type = reflect.TypeOf(deprecated.Int96{})
	dynLeaves = []dynLeaf{
		{typ: reflect.TypeOf(false), ptr: true, opt: true, rep: true, encs: []string{"", "plain"}},
		{typ: reflect.TypeOf(int32(0)), ptr: true, opt: true, rep: true, encs: []string{"", "delta", "dict", "plain", "split"}},
		{typ: reflect.TypeOf(int64(0)), ptr: true, opt: true, rep: true, encs: []string{"", "delta", "dict", "plain", "split"}},
		{typ: reflect.TypeOf(uint32(0)), ptr: true, opt: true, rep: true, encs: []string{"", "delta", "dict"}},
		{typ: reflect.TypeOf(uint64(0)), ptr: true, opt: true, rep: true, encs: []string{"", "delta", "dict"}},
		{typ: reflect.TypeOf(float32(0)), ptr: true, opt: true, rep: true, encs: []string{"", "split", "dict", "plain"}},
		{typ: reflect.TypeOf(float64(0)), ptr: true, opt: true, rep: true, encs: []string{"", "split", "dict", "plain"}},
		{typ: reflect.TypeOf(""), ptr: true, opt: true, rep: true, tags: []string{"", "", "enum", "json"}, encs: []string{"", "delta", "dict", "plain"}},
		{typ: reflect.TypeOf([]byte(nil)), opt: true, rep: true, encs: []string{"", "delta", "dict", "plain"}},
		{typ: reflect.TypeOf([16]byte{}), ptr: true, rep: true, tags: []string{"", "uuid"}, encs: []string{"", "dict", "plain", "split"}},
		{typ: reflect.TypeOf([5]byte{}), ptr: true, rep: true, encs: []string{"", "dict", "plain"}},
		{typ: reflect.TypeOf(int64(0)), opt: true, rep: true, tags: []string{"decimal(2:18)"}, encs: []string{"", "delta"}},
		{typ: reflect.TypeOf(int32(0)), opt: true, rep: true, tags: []string{"decimal(1:9)", "date"}, encs: []string{"", "delta"}},
		{typ: reflect.TypeOf(time.Time{}), opt: true, rep: true, tags: []string{"timestamp(millisecond)", "timestamp(microsecond)", "timestamp(nanosecond)"}, encs: []string{"", "delta"}},
		{typ: int96Type, rep: true, encs: []string{"", "plain"}},
		{typ: reflect.TypeOf(int8(0)), ptr: true, rep: true, encs: []string{""}},
		{typ: reflect.TypeOf(int16(0)), ptr: true, rep: true, encs: []string{""}},
		{typ: reflect.TypeOf(uint16(0)), ptr: true, rep: true, encs: []string{"", "dict"}},
		{typ: reflect.TypeOf([20]byte{}), ptr: true, rep: true, encs: []string{"", "dict", "plain"}},
		{typ: reflect.TypeOf([32]byte{}), ptr: true, rep: true, encs: []string{"", "dict", "split"}},
	}
	dynCodecs = []string{"", "", "", "", "snappy", "gzip", "zstd", "lz4", "brotli", "uncompressed"}
)

func (g *dynGen) pick(s []string) string { return s[g.r.Intn(len(s))] }

// leafField returns the Go type and tag options of one leaf field.
func (g *dynGen) leafField(allowMods bool) (reflect.Type, []string) {
	l := dynLeaves[g.r.Intn(len(dynLeaves))]
	var opts []string
	if len(l.tags) > 0 {
		if t := g.pick(l.tags); t != "" {
			opts = append(opts, t)
		}
	}
	if e := g.pick(l.encs); e != "" && g.r.Intn(2) == 0 {
		opts = append(opts, e)
	}
	if c := g.pick(dynCodecs); c != "" {
		opts = append(opts, c)
	}
	typ := l.typ
	g.nLeaf++
	if !allowMods {
		return typ, opts
	}
	switch k := g.r.Intn(8); k {
	case 0, 1:
		if l.ptr && !hasOpt(opts, "uuid") {
			typ = reflect.PointerTo(typ)
			for _, o := range []string{"delta", "enum", "json"} { // not accepted on pointers
				opts = dropOpt(opts, o)
			}
		}
	case 2:
		if l.opt {
			opts = append(opts, "optional")
		}
	case 3, 4:
		// repeated leaves: the library accepts logical type and encoding tags
		// (other than dict) on the element of a slice only for a few types; stay
		// with the plain element types
		if l.rep && len(l.tags) == 0 {
			opts = nil
			if g.r.Intn(3) == 0 {
				opts = append(opts, "dict")
			}
			if c := g.pick(dynCodecs); c != "" {
				opts = append(opts, c)
			}
			typ = reflect.SliceOf(typ)
			if k == 4 {
				opts = append(opts, "list")
			}
		}
	}
	return typ, opts
}

func dropOpt(opts []string, o string) []string {
	var out []string
	for _, x := range opts {
		if x != o {
			out = append(out, x)
		}
	}
	return out
}

func hasOpt(opts []string, o string) bool {
	for _, x := range opts {
		if x == o {
			return true
		}
	}
	return false
}

func (g *dynGen) structType(depth int, top bool) reflect.Type {
	var fields []reflect.StructField
	add := func(typ reflect.Type, opts []string) {
		name := fmt.Sprintf("f%d", len(fields))
		if top && len(fields) == 0 {
			name = "id"
		}
		tag := name
		if len(opts) > 0 {
			tag += "," + strings.Join(opts, ",")
		}
		fields = append(fields, reflect.StructField{
			Name: "F" + strconv.Itoa(len(fields)),
			Type: typ,
			Tag:  reflect.StructTag(`parquet:"` + tag + `"`),
		})
	}
	n := 1 + g.r.Intn(4)
	if top {
		add(reflect.TypeOf(int64(0)), nil)
		n = 2 + g.r.Intn(6)
	}
	for i := 0; i < n && g.nLeaf < 14; i++ {
		k := g.r.Intn(12)
		switch {
		case k < 7 || depth >= 2:
			add(g.leafField(true))
		case k == 7:
			add(g.structType(depth+1, false), nil)
		case k == 8:
			add(reflect.PointerTo(g.structType(depth+1, false)), nil)
		case k == 9:
			add(reflect.SliceOf(g.structType(depth+1, false)), nil)
		case k == 10:
			add(reflect.SliceOf(g.structType(depth+1, false)), []string{"list"})
		default:
			if !g.maps || g.r.Intn(3) > 0 {
				add(g.leafField(true))
				continue
			}
			g.hasMap = true
			if g.r.Bool() {
				// map values carry no tags: plain element types only
				l := dynLeaves[g.r.Intn(len(dynLeaves))]
				for len(l.tags) > 0 || l.typ == int96Type {
					l = dynLeaves[g.r.Intn(len(dynLeaves))]
				}
				g.nLeaf++
				add(reflect.MapOf(reflect.TypeOf(""), l.typ), nil)
			} else {
				add(reflect.MapOf(reflect.TypeOf(""), g.structType(2, false)), nil)
			}
		}
	}
	if len(fields) == 0 || (top && len(fields) == 1) {
		add(g.leafField(true))
	}
	return reflect.StructOf(fields)
}

// ---- values ----------------------------------------------------------------

func dynFill(r *tape.Rng, v reflect.Value, tag string, p Profile) {
	t := v.Type()
	switch {
	case t == timeType:
		if strings.Contains(tag, "optional") && r.Intn(3) > 0 {
			return // the zero time of an optional field is null; runs of them are common
		}
		us := int64(r.Uint64()%(1<<52)) - (1 << 51)
		if p == 0 {
			us = int64(r.Intn(12)) * 1000
		}
		if strings.Contains(tag, "millisecond") {
			us = us / 1000 * 1000
		}
		v.Set(reflect.ValueOf(time.UnixMicro(us).UTC()))
		return
	case t == int96Type:
		x := deprecated.Int96{uint32(r.Uint64()), uint32(r.Uint64()), uint32(r.Uint64())}
		if p == 0 {
			x = deprecated.Int96{uint32(r.Intn(5)), 0, 0}
		}
		v.Set(reflect.ValueOf(x))
		return
	}
	switch t.Kind() {
	case reflect.Struct:
		for i := 0; i < t.NumField(); i++ {
			dynFill(r, v.Field(i), string(t.Field(i).Tag), p)
		}
	case reflect.Pointer:
		if r.Intn(3) == 0 {
			return
		}
		n := reflect.New(t.Elem())
		dynFill(r, n.Elem(), tag, p)
		v.Set(n)
	case reflect.Slice:
		if t.Elem().Kind() == reflect.Uint8 {
			v.SetBytes(Bytes(r, p))
			return
		}
		n := lenSmall(r)
		if t.Elem().Kind() == reflect.Struct && n > 6 {
			n = 6
		}
		if n == 0 {
			if r.Bool() {
				v.Set(reflect.MakeSlice(t, 0, 0)) // empty, non-nil
			}
			return
		}
		s := reflect.MakeSlice(t, n, n)
		for i := 0; i < n; i++ {
			dynFill(r, s.Index(i), tag, p)
		}
		v.Set(s)
	case reflect.Map:
		n := lenSmall(r)
		if n > 5 {
			n = 5
		}
		if n == 0 {
			return
		}
		m := reflect.MakeMapWithSize(t, n)
		for i := 0; i < n; i++ {
			k := String(r, 0)
			if len(k) > 12 {
				k = k[:12]
			}
			e := reflect.New(t.Elem()).Elem()
			dynFill(r, e, "", p)
			m.SetMapIndex(reflect.ValueOf(k), e)
		}
		v.Set(m)
	case reflect.Array:
		b := make([]byte, t.Len())
		Fixed(r, p, b)
		reflect.Copy(v, reflect.ValueOf(b))
	case reflect.Bool:
		v.SetBool(r.Bool())
	case reflect.Int8, reflect.Int16, reflect.Int32:
		v.SetInt(int64(Int32(r, p)) << (32 - t.Bits()) >> (32 - t.Bits()))
	case reflect.Int64:
		v.SetInt(Int64(r, p))
	case reflect.Uint16, reflect.Uint32:
		v.SetUint(uint64(Uint32(r, p)) & (1<<t.Bits() - 1))
	case reflect.Uint64:
		v.SetUint(Uint64(r, p))
	case reflect.Float32:
		v.SetFloat(float64(Float32(r, p)))
	case reflect.Float64:
		v.SetFloat(Float64(r, p))
	case reflect.String:
		if strings.Contains(tag, "enum") {
			v.SetString(enumWords[r.Intn(len(enumWords))])
		} else if strings.Contains(tag, "json") {
			v.SetString([]string{`{}`, `{"a":1}`, `[1,2,3]`, `"x"`, `null`, `{"k":"` + strings.Repeat("v", r.Intn(40)) + `"}`}[r.Intn(6)])
		} else {
			v.SetString(String(r, p))
		}
	default:
		panic("dynFill: unsupported kind " + t.String())
	}
}

// ---- shape plumbing --------------------------------------------------------

type dynData struct {
	vals []any
	rows []parquet.Row
}

func (d *dynData) Len() int            { return len(d.vals) }
func (d *dynData) Rows() []parquet.Row { return d.rows }
func (d *dynData) Value(i int) any     { return d.vals[i] }

func (s *dynShape) Name() string            { return s.name }
func (s *dynShape) Schema() *parquet.Schema { return s.schema }
func (s *dynShape) HasMap() bool            { return s.hasMap }
func (s *dynShape) Type() reflect.Type      { return s.typ }

func (s *dynShape) Make(seed uint64, n int, p Profile) Data {
	r := tape.NewRng(seed)
	d := &dynData{vals: make([]any, n), rows: make([]parquet.Row, n)}
	for i := range d.vals {
		v := reflect.New(s.typ).Elem()
		dynFill(r, v, "", p)
		v.Field(0).SetInt(int64(i))
		d.vals[i] = v.Interface()
		d.rows[i] = s.schema.Deconstruct(nil, d.vals[i])
	}
	return d
}

func (s *dynShape) Deconstruct(v any) parquet.Row { return s.schema.Deconstruct(nil, v) }
func (s *dynShape) EqualValues(a, b any) bool     { return normEqual(a, b) }

type dynWriter struct {
	g      *parquet.GenericWriter[any]
	w      *parquet.Writer
	sw     *parquet.SortingWriter[any]
	rows   bool
	filter parquet.RowWriter
	mixed  bool
	calls  int
}

func (w *dynWriter) Write(d Data, lo, hi int) (int, error) {
	dd := d.(*dynData)
	w.calls++
	switch {
	case w.filter != nil:
		return w.filter.WriteRows(cloneRows(dd.rows[lo:hi]))
	case w.rows || (w.mixed && w.calls%2 == 1):
		rows := cloneRows(dd.rows[lo:hi])
		n, err := w.g.WriteRows(rows)
		Scribble(rows)
		return n, err
	case w.g != nil:
		return w.g.Write(dd.vals[lo:hi])
	case w.sw != nil:
		return w.sw.Write(dd.vals[lo:hi])
	}
	for i := lo; i < hi; i++ {
		if err := w.w.Write(dd.vals[i]); err != nil {
			return i - lo, err
		}
	}
	return hi - lo, nil
}

func (w *dynWriter) WriteRows(rows []parquet.Row) (int, error) {
	switch {
	case w.g != nil:
		return w.g.WriteRows(rows)
	case w.sw != nil:
		return w.sw.WriteRows(rows)
	}
	return w.w.WriteRows(rows)
}

func (w *dynWriter) WriteRowGroup(rg parquet.RowGroup) (int64, error) {
	switch {
	case w.g != nil:
		return w.g.WriteRowGroup(rg)
	case w.sw != nil:
		return parquet.CopyRows(w.sw, rg.Rows())
	}
	return w.w.WriteRowGroup(rg)
}

func (w *dynWriter) Flush() error {
	switch {
	case w.g != nil:
		return w.g.Flush()
	case w.sw != nil:
		return w.sw.Flush()
	}
	return w.w.Flush()
}

func (w *dynWriter) Close() error {
	switch {
	case w.g != nil:
		return w.g.Close()
	case w.sw != nil:
		return w.sw.Close()
	}
	return w.w.Close()
}

func (w *dynWriter) Reset(o io.Writer) {
	switch {
	case w.g != nil:
		w.g.Reset(o)
	case w.sw != nil:
		w.sw.Reset(o)
	default:
		w.w.Reset(o)
	}
}

func (w *dynWriter) SetKeyValueMetadata(k, v string) {
	switch {
	case w.g != nil:
		w.g.SetKeyValueMetadata(k, v)
	case w.sw != nil:
		w.sw.SetKeyValueMetadata(k, v)
	default:
		w.w.SetKeyValueMetadata(k, v)
	}
}

func (w *dynWriter) Schema() *parquet.Schema {
	switch {
	case w.g != nil:
		return w.g.Schema()
	case w.sw != nil:
		return w.sw.Schema()
	}
	return w.w.Schema()
}

func (w *dynWriter) Raw() any {
	switch {
	case w.g != nil:
		return w.g
	case w.sw != nil:
		return w.sw
	}
	return w.w
}

func (s *dynShape) NewWriter(kind string, out io.Writer, opts ...parquet.WriterOption) Writer {
	o := append([]parquet.WriterOption{s.schema}, opts...)
	switch kind {
	case WGeneric, WAny:
		return &dynWriter{g: parquet.NewGenericWriter[any](out, o...)}
	case WRows:
		return &dynWriter{g: parquet.NewGenericWriter[any](out, o...), rows: true}
	case WMixed:
		return &dynWriter{g: parquet.NewGenericWriter[any](out, o...), mixed: true}
	case WFilter:
		g := parquet.NewGenericWriter[any](out, o...)
		return &dynWriter{g: g, filter: parquet.FilterRowWriter(g, func(parquet.Row) bool { return true })}
	case WReflect:
		return &dynWriter{w: parquet.NewWriter(out, o...)}
	}
	panic("unknown writer kind " + kind)
}

func (s *dynShape) NewSortingWriter(out io.Writer, sortRowCount int64, opts ...parquet.WriterOption) Writer {
	o := append([]parquet.WriterOption{s.schema}, opts...)
	return &dynWriter{sw: parquet.NewSortingWriter[any](out, sortRowCount, o...)}
}

type dynGenericBuffer struct{ *parquet.GenericBuffer[any] }

func (b dynGenericBuffer) Write(d Data, lo, hi int) (int, error) {
	return b.GenericBuffer.Write(d.(*dynData).vals[lo:hi])
}

type dynUntypedBuffer struct{ *parquet.Buffer }

func (b dynUntypedBuffer) Write(d Data, lo, hi int) (int, error) {
	dd := d.(*dynData)
	for i := lo; i < hi; i++ {
		if err := b.Buffer.Write(dd.vals[i]); err != nil {
			return i - lo, err
		}
	}
	return hi - lo, nil
}

type dynRowBuffer struct{ *parquet.RowBuffer[any] }

func (b dynRowBuffer) Write(d Data, lo, hi int) (int, error) {
	return b.RowBuffer.Write(d.(*dynData).vals[lo:hi])
}

func (s *dynShape) NewBuffer(kind string, opts ...parquet.RowGroupOption) Buffer {
	o := append([]parquet.RowGroupOption{s.schema}, opts...)
	switch kind {
	case BGeneric:
		return dynGenericBuffer{parquet.NewGenericBuffer[any](o...)}
	case BUntyped:
		return dynUntypedBuffer{parquet.NewBuffer(o...)}
	case BRow:
		return dynRowBuffer{parquet.NewRowBuffer[any](o...)}
	}
	panic("unknown buffer kind " + kind)
}

// dynReader reads typed values through the reflection based Reader.Read into
// destinations that are reused across calls, like an application's batch.
type dynReader struct {
	sh  *dynShape
	r   *parquet.Reader
	buf []reflect.Value // pointers to reused destinations
}

func (t *dynReader) Read(n int) ([]any, []parquet.Row, error) {
	for len(t.buf) < n {
		t.buf = append(t.buf, reflect.New(t.sh.typ))
	}
	var vals []any
	var rows []parquet.Row
	for i := 0; i < n; i++ {
		if err := t.r.Read(t.buf[i].Interface()); err != nil {
			return vals, rows, err
		}
		v := t.buf[i].Elem().Interface()
		vals = append(vals, v)
		rows = append(rows, t.sh.schema.Deconstruct(nil, v))
	}
	return vals, rows, nil
}
func (t *dynReader) ReadRows(rows []parquet.Row) (int, error) { return t.r.ReadRows(rows) }
func (t *dynReader) SeekToRow(i int64) error                  { return t.r.SeekToRow(i) }
func (t *dynReader) NumRows() int64                           { return t.r.NumRows() }
func (t *dynReader) Close() error                             { return t.r.Close() }
func (t *dynReader) Reset()                                   { t.r.Reset() }

func (s *dynShape) NewReader(in io.ReaderAt, opts ...parquet.ReaderOption) TypedReader {
	o := append([]parquet.ReaderOption{s.schema}, opts...)
	return &dynReader{sh: s, r: parquet.NewReader(in, o...)}
}

func (s *dynShape) NewRowGroupReader(rg parquet.RowGroup, opts ...parquet.ReaderOption) TypedReader {
	o := append([]parquet.ReaderOption{s.schema}, opts...)
	return &dynReader{sh: s, r: parquet.NewRowGroupReader(rg, o...)}
}

func (s *dynShape) ReadAll(in io.ReaderAt, size int64) ([]any, []parquet.Row, error) {
	r := parquet.NewReader(in, s.schema)
	defer r.Close()
	var vals []any
	var rows []parquet.Row
	for {
		p := reflect.New(s.typ)
		if err := r.Read(p.Interface()); err != nil {
			if err == io.EOF {
				return vals, rows, nil
			}
			return vals, rows, err
		}
		v := p.Elem().Interface()
		vals = append(vals, v)
		rows = append(rows, s.schema.Deconstruct(nil, v))
	}
}

// reflectGen generates a value of any shape type by reflection (the generator
// of the dynamic shapes, for the static types emitted from them).
func reflectGen[T any](r *tape.Rng, id int64, p Profile) T {
	var v T
	rv := reflect.ValueOf(&v).Elem()
	dynFill(r, rv, "", p)
	rv.Field(0).SetInt(id)
	return v
}
