// Package gen holds the value/row/option generators shared by the property
// checks. The value dimension is plain seeded generation (declared as such in
// evidence); what the simulator owns is histories, storage behaviour, faults
// and schedules.
package gen

import (
	"math"

	"pqsim/tape"
)

// Profile steers cardinality: 0 = low cardinality (dictionary friendly),
// 1 = mixed, 2 = high cardinality (forces dictionary growth / fallback).
type Profile int

var words = []string{"", "a", "b", "ab", "abc", "parquet", "go", "zz", "delta", "delta-byte", "delta-byte-array", "x", "y", "Ω", "\x00", "\xff\xff\xff\xff\xff\xff\xff\xff\xff\xff\xff\xff\xff\xff\xff\xff\xff\xff\xfe"}

func Int64(r *tape.Rng, p Profile) int64 {
	switch r.Intn(10) {
	case 0:
		return math.MinInt64
	case 1:
		return math.MaxInt64
	case 2:
		return 0
	case 3:
		return -1
	case 4, 5:
		return int64(r.Intn(8)) - 2
	}
	if p == 0 {
		return int64(r.Intn(12))
	}
	if p == 1 && r.Bool() {
		return int64(r.Intn(1000)) - 500
	}
	return int64(r.Uint64())
}

func Int32(r *tape.Rng, p Profile) int32 {
	switch r.Intn(10) {
	case 0:
		return math.MinInt32
	case 1:
		return math.MaxInt32
	case 2:
		return 0
	case 3:
		return -1
	}
	if p == 0 {
		return int32(r.Intn(12))
	}
	if p == 1 && r.Bool() {
		return int32(r.Intn(1000)) - 500
	}
	return int32(r.Uint64())
}

func Uint32(r *tape.Rng, p Profile) uint32 {
	switch r.Intn(8) {
	case 0:
		return math.MaxUint32
	case 1:
		return 0
	case 2:
		return 1 << 31
	}
	if p == 0 {
		return uint32(r.Intn(12))
	}
	return uint32(r.Uint64())
}

func Uint64(r *tape.Rng, p Profile) uint64 {
	switch r.Intn(8) {
	case 0:
		return math.MaxUint64
	case 1:
		return 0
	case 2:
		return 1 << 63
	}
	if p == 0 {
		return uint64(r.Intn(12))
	}
	return r.Uint64()
}

func Float64(r *tape.Rng, p Profile) float64 {
	switch r.Intn(14) {
	case 0:
		return math.NaN()
	case 1:
		return math.Float64frombits(0x7ff8000000000001 | uint64(r.Intn(1<<20))<<8) // NaN with payload
	case 2:
		return math.Float64frombits(0xfff0000000000001 | uint64(r.Intn(1<<20))) // negative signalling NaN
	case 3:
		return math.Copysign(0, -1)
	case 4:
		return 0
	case 5:
		return math.Inf(1)
	case 6:
		return math.Inf(-1)
	case 7:
		return math.SmallestNonzeroFloat64
	case 8:
		return math.MaxFloat64
	}
	if p == 0 {
		return float64(r.Intn(12)) / 4
	}
	return math.Float64frombits(r.Uint64())
}

func Float32(r *tape.Rng, p Profile) float32 {
	switch r.Intn(14) {
	case 0:
		return math.Float32frombits(0x7fc00000)
	case 1:
		return math.Float32frombits(0x7fc00001 | uint32(r.Intn(1<<10))<<4)
	case 2:
		// negative quiet NaN with payload. Signalling float32 NaNs are not
		// generated: the reflection paths (Deconstruct, Read[T]) pass float32
		// through float64, where the CPU sets the quiet bit (see DESIGN.md).
		return math.Float32frombits(0xffc00001 | uint32(r.Intn(1<<10)))
	case 3:
		return float32(math.Copysign(0, -1))
	case 4:
		return 0
	case 5:
		return float32(math.Inf(1))
	case 6:
		return float32(math.Inf(-1))
	}
	if p == 0 {
		return float32(r.Intn(12)) / 4
	}
	return quiet32(math.Float32frombits(uint32(r.Uint64())))
}

// quiet32 turns a signalling float32 NaN into the quiet NaN with the same
// payload (see Float32).
func quiet32(f float32) float32 {
	b := math.Float32bits(f)
	if b&0x7f800000 == 0x7f800000 && b&0x007fffff != 0 {
		b |= 0x00400000
	}
	return math.Float32frombits(b)
}

// emptyNonNil is an empty string whose data pointer is not nil (a slice of a
// longer string): equal to "" for the language, but not for code that tests
// the pointer word instead of the length.
var emptyNonNil = func() string {
	backing := string([]byte("pqsim-backing-string"))
	return backing[6:6]
}()

func String(r *tape.Rng, p Profile) string {
	if r.Intn(16) == 0 {
		return emptyNonNil
	}
	switch p {
	case 0:
		return words[r.Intn(len(words))]
	case 1:
		if r.Intn(3) > 0 {
			return words[r.Intn(len(words))]
		}
	}
	switch r.Intn(12) {
	case 0:
		return ""
	case 1:
		// long string
		b := make([]byte, 200+r.Intn(2000))
		r.Bytes(b)
		return string(b)
	case 2:
		// shared prefix (delta byte array)
		return "prefix/shared/path/" + words[r.Intn(len(words))]
	}
	b := make([]byte, 1+r.Intn(24))
	r.Bytes(b)
	return string(b)
}

func Bytes(r *tape.Rng, p Profile) []byte {
	// never nil-vs-empty sensitive: callers normalise
	s := String(r, p)
	return []byte(s)
}

func Fixed(r *tape.Rng, p Profile, b []byte) {
	switch r.Intn(6) {
	case 0:
		for i := range b {
			b[i] = 0
		}
		return
	case 1:
		for i := range b {
			b[i] = 0xff
		}
		return
	}
	if p == 0 {
		for i := range b {
			b[i] = 0
		}
		b[len(b)-1] = byte(r.Intn(12))
		return
	}
	r.Bytes(b)
}
