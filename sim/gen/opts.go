package gen

import (
	"fmt"
	"strings"

	"github.com/parquet-go/parquet-go"
	"github.com/parquet-go/parquet-go/compress"
	"github.com/parquet-go/parquet-go/encoding"

	"pqsim/core"
	"pqsim/env"
	"pqsim/tape"
)

type KindEnc struct {
	Kind string `json:"kind"`
	Enc  string `json:"enc"`
}

type BloomSpec struct {
	Path []string `json:"path"`
	Bits uint     `json:"bits"`
}

type SortCol struct {
	Path       []string `json:"path"`
	Desc       bool     `json:"desc,omitempty"`
	NullsFirst bool     `json:"nulls_first,omitempty"`
}

// WOpts is the JSON form of a writer configuration (the swarm knobs).
type WOpts struct {
	PageBufferSize  int         `json:"page_buffer_size,omitempty"`
	WriteBufferSize int         `json:"write_buffer_size"` // -1 = library default, 0 = unbuffered
	MaxRowsPerGroup int64       `json:"max_rows_per_group,omitempty"`
	PageVersion     int         `json:"page_version,omitempty"`
	Codec           string      `json:"codec,omitempty"`
	DictMaxBytes    int64       `json:"dict_max_bytes,omitempty"`
	NoStats         bool        `json:"no_stats,omitempty"`
	IndexSizeLimit  int         `json:"index_size_limit,omitempty"`
	Encodings       []KindEnc   `json:"encodings,omitempty"`
	Bloom           []BloomSpec `json:"bloom,omitempty"`
	BloomGzip       bool        `json:"bloom_gzip,omitempty"`
	BloomDeferred   bool        `json:"bloom_deferred,omitempty"`
	Pool            env.PoolCfg `json:"pool"`
	Sorting         []SortCol   `json:"sorting,omitempty"`
	DropDuplicates  bool        `json:"drop_duplicates,omitempty"`
	// EncryptKey, when set, encrypts the file (footer key for every column)
	EncryptKey      []byte      `json:"encrypt_key,omitempty"`
	EncryptedFooter bool        `json:"encrypted_footer,omitempty"`
	KV              [][2]string `json:"kv,omitempty"`
	SkipPageBounds  [][]string  `json:"skip_page_bounds,omitempty"`
}

var Codecs = []string{"none", "snappy", "gzip", "zstd", "brotli", "lz4"}

func CodecByName(n string) compress.Codec {
	switch n {
	case "", "none":
		return &parquet.Uncompressed
	case "snappy":
		return &parquet.Snappy
	case "gzip":
		return &parquet.Gzip
	case "zstd":
		return &parquet.Zstd
	case "brotli":
		return &parquet.Brotli
	case "lz4":
		return &parquet.Lz4Raw
	}
	panic("unknown codec " + n)
}

func EncByName(n string) encoding.Encoding {
	switch n {
	case "plain":
		return &parquet.Plain
	case "rle":
		return &parquet.RLE
	case "dict":
		return &parquet.RLEDictionary
	case "delta":
		return &parquet.DeltaBinaryPacked
	case "delta-length":
		return &parquet.DeltaLengthByteArray
	case "delta-bytes":
		return &parquet.DeltaByteArray
	case "split":
		return &parquet.ByteStreamSplit
	}
	panic("unknown encoding " + n)
}

func KindByName(n string) parquet.Kind {
	switch n {
	case "boolean":
		return parquet.Boolean
	case "int32":
		return parquet.Int32
	case "int64":
		return parquet.Int64
	case "int96":
		return parquet.Int96
	case "float":
		return parquet.Float
	case "double":
		return parquet.Double
	case "bytes":
		return parquet.ByteArray
	case "fixed":
		return parquet.FixedLenByteArray
	}
	panic("unknown kind " + n)
}

var encChoices = map[string][]string{
	"boolean": {"plain", "rle", "dict"},
	"int32":   {"plain", "delta", "dict", "split"},
	"int64":   {"plain", "delta", "dict", "split"},
	"int96":   {"plain", "dict"},
	"float":   {"plain", "split", "dict"},
	"double":  {"plain", "split", "dict"},
	"bytes":   {"plain", "delta-length", "delta-bytes", "dict"},
	"fixed":   {"plain", "delta-bytes", "split", "dict"},
}

var kindNames = []string{"boolean", "int32", "int64", "int96", "float", "double", "bytes", "fixed"}

// LeafPaths lists the leaf column paths of a schema.
func LeafPaths(s *parquet.Schema) [][]string { return s.Columns() }

// GenWOpts draws a writer configuration. The first choice of every knob is
// the plain default so that shrinking moves towards defaults.
func GenWOpts(t *tape.Tape, sh Shape) WOpts {
	var o WOpts
	o.WriteBufferSize = []int{-1, 0, 16, 4096, 1}[t.Draw(5)]
	o.PageBufferSize = []int{0, 32, 64, 256, 1024, 4096, 65536}[t.Weighted(3, 2, 2, 3, 3, 2, 1)]
	o.MaxRowsPerGroup = []int64{0, 1, 7, 50, 100, 333, 1000}[t.Weighted(5, 1, 1, 2, 2, 2, 2)]
	o.PageVersion = []int{0, 1, 2}[t.Draw(3)]
	o.Codec = Codecs[t.Weighted(4, 3, 2, 2, 1, 1)]
	o.DictMaxBytes = []int64{0, 1, 64, 256, 2048}[t.Weighted(5, 1, 2, 2, 2)]
	o.NoStats = t.Chance(1, 5)
	o.IndexSizeLimit = []int{0, 1, 2, 4, 64}[t.Weighted(4, 1, 1, 1, 1)]
	if t.Chance(1, 2) {
		for _, k := range kindNames {
			if t.Chance(1, 2) {
				c := encChoices[k]
				o.Encodings = append(o.Encodings, KindEnc{k, c[t.Draw(len(c))]})
			}
		}
	}
	if t.Chance(1, 3) {
		o.Pool = GenPoolCfg(t)
	}
	if t.Chance(1, 4) {
		o.KV = append(o.KV, [2]string{"pqsim", "kv"})
	}
	return o
}

func GenPoolCfg(t *tape.Tape) env.PoolCfg {
	return env.PoolCfg{
		Enabled:     true,
		ReadChunk:   []int{0, 1, 7, 100, 4096}[t.Draw(5)],
		EOFWithData: t.Bool(),
		WriterTo:    t.Bool(),
		ReaderFrom:  t.Bool(),
		Recycle:     t.Bool(),
	}
}

// GenBloom adds bloom filters on a random non-empty subset of leaf columns.
func GenBloom(t *tape.Tape, sh Shape, o *WOpts) {
	paths := LeafPaths(sh.Schema())
	for _, p := range paths {
		if t.Chance(1, 2) {
			o.Bloom = append(o.Bloom, BloomSpec{Path: p, Bits: uint([]int{10, 1, 4, 20}[t.Draw(4)])})
		}
	}
	if len(o.Bloom) == 0 {
		p := paths[t.Draw(len(paths))]
		o.Bloom = append(o.Bloom, BloomSpec{Path: p, Bits: 10})
	}
	o.BloomGzip = t.Chance(1, 3)
	o.BloomDeferred = t.Chance(1, 3)
}

// Env carries the simulated seams a writer configuration refers to.
type Env struct {
	Ctx       *core.Ctx
	PagePool  *env.SimBufferPool
	BloomPool *env.SimBufferPool
	SortPool  *env.SimBufferPool
}

// Options converts o into library options. Simulated pools are created in e.
func (o *WOpts) Options(e *Env) []parquet.WriterOption {
	var opts []parquet.WriterOption
	if len(o.EncryptKey) > 0 {
		opts = append(opts, parquet.WithEncryption(&parquet.EncryptionConfig{FooterKey: o.EncryptKey, EncryptedFooter: o.EncryptedFooter}))
	}
	if o.PageBufferSize > 0 {
		opts = append(opts, parquet.PageBufferSize(o.PageBufferSize))
	}
	if o.WriteBufferSize >= 0 {
		opts = append(opts, parquet.WriteBufferSize(o.WriteBufferSize))
	}
	if o.MaxRowsPerGroup > 0 {
		opts = append(opts, parquet.MaxRowsPerRowGroup(o.MaxRowsPerGroup))
	}
	if o.PageVersion > 0 {
		opts = append(opts, parquet.DataPageVersion(o.PageVersion))
	}
	if o.Codec != "" && o.Codec != "none" {
		opts = append(opts, parquet.Compression(CodecByName(o.Codec)))
	}
	if o.DictMaxBytes > 0 {
		opts = append(opts, parquet.DictionaryMaxBytes(o.DictMaxBytes))
	}
	if o.NoStats {
		opts = append(opts, parquet.DataPageStatistics(false))
	}
	if o.IndexSizeLimit > 0 {
		n := o.IndexSizeLimit
		opts = append(opts, parquet.ColumnIndexSizeLimit(func([]string) int { return n }))
	}
	for _, ke := range o.Encodings {
		opts = append(opts, parquet.DefaultEncodingFor(KindByName(ke.Kind), EncByName(ke.Enc)))
	}
	if len(o.Bloom) > 0 {
		var fs []parquet.BloomFilterColumn
		for _, b := range o.Bloom {
			fs = append(fs, parquet.SplitBlockFilter(b.Bits, b.Path...))
		}
		opts = append(opts, parquet.BloomFilters(fs...))
		if o.BloomGzip {
			opts = append(opts, parquet.BloomFilterCompression(&parquet.Gzip))
		}
		if o.BloomDeferred {
			if e != nil && o.Pool.Enabled {
				e.BloomPool = env.NewBufferPool(e.Ctx, o.Pool)
				opts = append(opts, parquet.DeferBloomFiltersWithBuffers(e.BloomPool))
			} else {
				opts = append(opts, parquet.DeferBloomFiltersWithBuffers(parquet.NewBufferPool()))
			}
		}
	}
	if o.Pool.Enabled && e != nil {
		e.PagePool = env.NewBufferPool(e.Ctx, o.Pool)
		opts = append(opts, parquet.ColumnPageBuffers(e.PagePool))
	}
	if len(o.Sorting) > 0 || o.DropDuplicates {
		var so []parquet.SortingOption
		so = append(so, parquet.SortingColumns(SortingColumns(o.Sorting)...))
		if o.DropDuplicates {
			so = append(so, parquet.DropDuplicatedRows(true))
		}
		if o.Pool.Enabled && e != nil {
			e.SortPool = env.NewBufferPool(e.Ctx, o.Pool)
			so = append(so, parquet.SortingBuffers(e.SortPool))
		}
		opts = append(opts, parquet.SortingWriterConfig(so...))
	}
	for _, kv := range o.KV {
		opts = append(opts, parquet.KeyValueMetadata(kv[0], kv[1]))
	}
	for _, p := range o.SkipPageBounds {
		opts = append(opts, parquet.SkipPageBounds(p...))
	}
	return opts
}

func SortingColumns(cols []SortCol) []parquet.SortingColumn {
	var out []parquet.SortingColumn
	for _, c := range cols {
		var sc parquet.SortingColumn
		if c.Desc {
			sc = parquet.Descending(c.Path...)
		} else {
			sc = parquet.Ascending(c.Path...)
		}
		if c.NullsFirst {
			sc = parquet.NullsFirst(sc)
		}
		out = append(out, sc)
	}
	return out
}

// PoolAnomalies returns contract violations recorded by the simulated pools.
func (e *Env) PoolAnomalies() []string {
	var out []string
	for _, p := range []*env.SimBufferPool{e.PagePool, e.BloomPool, e.SortPool} {
		if p != nil {
			out = append(out, p.Anomalies...)
		}
	}
	return out
}

func (o *WOpts) Sig() string {
	var b strings.Builder
	fmt.Fprintf(&b, "pb%d wb%d mr%d v%d %s dm%d st%v il%d e%v bl%d%v%v pool%v", o.PageBufferSize, o.WriteBufferSize, o.MaxRowsPerGroup,
		o.PageVersion, o.Codec, o.DictMaxBytes, !o.NoStats, o.IndexSizeLimit, o.Encodings, len(o.Bloom), o.BloomGzip, o.BloomDeferred, o.Pool)
	return b.String()
}

// FOpts is the JSON form of OpenFile options.
type FOpts struct {
	SkipPageIndex    bool `json:"skip_page_index,omitempty"`
	SkipBloomFilters bool `json:"skip_bloom_filters,omitempty"`
	PrefetchBloom    bool `json:"prefetch_bloom,omitempty"`
	Optimistic       bool `json:"optimistic,omitempty"`
	ReadBufferSize   int  `json:"read_buffer_size,omitempty"`
	Async            bool `json:"async,omitempty"`
	// DecryptKey, when set, is the key every module of the file is read with
	DecryptKey []byte `json:"decrypt_key,omitempty"`
	EOFAtEnd   bool   `json:"eof_at_end,omitempty"`
}

func GenFOpts(t *tape.Tape) FOpts {
	return FOpts{
		SkipPageIndex:    t.Chance(1, 3),
		SkipBloomFilters: t.Chance(1, 3),
		PrefetchBloom:    t.Chance(1, 3),
		Optimistic:       t.Chance(1, 4),
		ReadBufferSize:   []int{0, 16, 64, 512, 4096}[t.Draw(5)],
		EOFAtEnd:         t.Bool(),
	}
}

func (o *FOpts) Options() []parquet.FileOption {
	var opts []parquet.FileOption
	if o.SkipPageIndex {
		opts = append(opts, parquet.SkipPageIndex(true))
	}
	if o.SkipBloomFilters {
		opts = append(opts, parquet.SkipBloomFilters(true))
	}
	if o.PrefetchBloom {
		opts = append(opts, parquet.PrefetchBloomFilters(true))
	}
	if o.Optimistic {
		opts = append(opts, parquet.OptimisticRead(true))
	}
	if o.ReadBufferSize > 0 {
		opts = append(opts, parquet.ReadBufferSize(o.ReadBufferSize))
	}
	if len(o.DecryptKey) > 0 {
		opts = append(opts, parquet.WithDecryption(oneKey(o.DecryptKey)))
	}
	if o.Async {
		opts = append(opts, parquet.FileReadMode(parquet.ReadModeAsync))
	}
	return opts
}

// oneKey is a KeyRetriever answering every request with the same key.
type oneKey []byte

func (k oneKey) FooterKey([]byte) ([]byte, error)           { return k, nil }
func (k oneKey) ColumnKey([]string, []byte) ([]byte, error) { return k, nil }
