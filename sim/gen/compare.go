package gen

import (
	"strings"
	"bytes"
	"fmt"
	"math"
	"reflect"
	"time"

	"github.com/parquet-go/parquet-go"
)

// ValueEqual compares two parquet values exactly: kind, levels, column index
// and payload bits (floats by bit pattern, byte strings byte for byte).
func ValueEqual(a, b parquet.Value) bool {
	if a.Kind() != b.Kind() || a.IsNull() != b.IsNull() {
		return false
	}
	if a.RepetitionLevel() != b.RepetitionLevel() || a.DefinitionLevel() != b.DefinitionLevel() || a.Column() != b.Column() {
		return false
	}
	if a.IsNull() {
		return true
	}
	switch a.Kind() {
	case parquet.ByteArray, parquet.FixedLenByteArray, parquet.Int96:
		return bytes.Equal(a.ByteArray(), b.ByteArray())
	case parquet.Boolean:
		return a.Boolean() == b.Boolean()
	case parquet.Int32:
		return a.Int32() == b.Int32()
	case parquet.Float:
		return math.Float32bits(a.Float()) == math.Float32bits(b.Float())
	default:
		return a.Uint64() == b.Uint64()
	}
}

func RowEqual(a, b parquet.Row) bool {
	if len(a) != len(b) {
		return false
	}
	for i := range a {
		if !ValueEqual(a[i], b[i]) {
			return false
		}
	}
	return true
}

// RowDiff describes the first difference between two rows.
func RowDiff(want, got parquet.Row) string {
	if len(want) != len(got) {
		return fmt.Sprintf("row has %d values, want %d", len(got), len(want))
	}
	for i := range want {
		if !ValueEqual(want[i], got[i]) {
			return fmt.Sprintf("value %d: got %s, want %s", i, FmtValue(got[i]), FmtValue(want[i]))
		}
	}
	return ""
}

func FmtValue(v parquet.Value) string {
	s := fmt.Sprintf("%+v", v)
	if len(s) > 80 {
		s = s[:80] + "…"
	}
	return fmt.Sprintf("{C:%d R:%d D:%d K:%v %q}", v.Column(), v.RepetitionLevel(), v.DefinitionLevel(), v.Kind(), s)
}

// CloneRows deep-copies rows (values and the byte strings they point to).
func CloneRows(rows []parquet.Row) []parquet.Row { return cloneRows(rows) }

// normEqual is deep equality after the documented normalisation: nil and
// empty slices/maps are the same; floats compare by bit pattern; time.Time by
// instant.
func normEqual(a, b any) bool {
	return normEq(reflect.ValueOf(a), reflect.ValueOf(b))
}

var timeType = reflect.TypeOf(time.Time{})

func normEq(a, b reflect.Value) bool {
	if a.Type() != b.Type() {
		return false
	}
	switch a.Kind() {
	case reflect.Float32, reflect.Float64:
		if a.Kind() == reflect.Float32 {
			return math.Float32bits(float32(a.Float())) == math.Float32bits(float32(b.Float()))
		}
		return math.Float64bits(a.Float()) == math.Float64bits(b.Float())
	case reflect.Pointer:
		if a.IsNil() || b.IsNil() {
			return a.IsNil() == b.IsNil()
		}
		return normEq(a.Elem(), b.Elem())
	case reflect.Slice:
		if a.Len() != b.Len() {
			return false
		}
		for i := 0; i < a.Len(); i++ {
			if !normEq(a.Index(i), b.Index(i)) {
				return false
			}
		}
		return true
	case reflect.Array:
		for i := 0; i < a.Len(); i++ {
			if !normEq(a.Index(i), b.Index(i)) {
				return false
			}
		}
		return true
	case reflect.Map:
		if a.Len() != b.Len() {
			return false
		}
		it := a.MapRange()
		for it.Next() {
			bv := b.MapIndex(it.Key())
			if !bv.IsValid() || !normEq(it.Value(), bv) {
				return false
			}
		}
		return true
	case reflect.Struct:
		if a.Type() == timeType {
			return a.Interface().(time.Time).Equal(b.Interface().(time.Time))
		}
		for i := 0; i < a.NumField(); i++ {
			if k := a.Field(i).Kind(); (k == reflect.Float32 || k == reflect.Float64) && strings.Contains(string(a.Type().Field(i).Tag), ",optional") &&
				a.Field(i).Float() == 0 && b.Field(i).Float() == 0 {
				// the zero value of an optional non-pointer field is null: -0.0
				// compares equal to zero, is written as null and reads back as +0.0
				continue
			}
			if !normEq(a.Field(i), b.Field(i)) {
				return false
			}
		}
		return true
	case reflect.String:
		return a.String() == b.String()
	case reflect.Bool:
		return a.Bool() == b.Bool()
	case reflect.Int, reflect.Int8, reflect.Int16, reflect.Int32, reflect.Int64:
		return a.Int() == b.Int()
	case reflect.Uint, reflect.Uint8, reflect.Uint16, reflect.Uint32, reflect.Uint64:
		return a.Uint() == b.Uint()
	}
	return reflect.DeepEqual(a.Interface(), b.Interface())
}

// Scribble overwrites the byte-array memory of rows the harness owns. Called
// right after the rows were handed to a WriteRows: a writer that kept
// references to the caller's memory instead of copying then holds garbage.
func Scribble(rows []parquet.Row) {
	for _, row := range rows {
		for _, v := range row {
			if v.IsNull() || (v.Kind() != parquet.ByteArray && v.Kind() != parquet.FixedLenByteArray) {
				continue
			}
			b := v.ByteArray()
			for i := range b {
				b[i] ^= 0xA5
			}
		}
	}
}
