// Package tape is the single choice source of the simulator: a seeded PRNG in
// generate mode, a recorded list of integers in replay/shrink mode.
package tape

import "math/bits"

// Rng is xoshiro256** seeded through SplitMix64.
type Rng struct{ s [4]uint64 }

func splitmix(x *uint64) uint64 {
	*x += 0x9E3779B97F4A7C15
	z := *x
	z = (z ^ (z >> 30)) * 0xBF58476D1CE4E5B9
	z = (z ^ (z >> 27)) * 0x94D049BB133111EB
	return z ^ (z >> 31)
}

// Mix derives a sub-seed from a seed and a list of integers/strings.
func Mix(seed uint64, parts ...any) uint64 {
	x := seed
	h := splitmix(&x)
	for _, p := range parts {
		switch v := p.(type) {
		case int:
			x ^= uint64(v) * 0xD6E8FEB86659FD93
		case uint64:
			x ^= v * 0xD6E8FEB86659FD93
		case int64:
			x ^= uint64(v) * 0xD6E8FEB86659FD93
		case string:
			for i := 0; i < len(v); i++ {
				x = (x ^ uint64(v[i])) * 0x100000001B3
			}
		}
		h ^= splitmix(&x)
	}
	return h
}

func NewRng(seed uint64) *Rng {
	r := &Rng{}
	x := seed
	for i := range r.s {
		r.s[i] = splitmix(&x)
	}
	return r
}

func (r *Rng) Uint64() uint64 {
	s := &r.s
	res := bits.RotateLeft64(s[1]*5, 7) * 9
	t := s[1] << 17
	s[2] ^= s[0]
	s[3] ^= s[1]
	s[1] ^= s[2]
	s[0] ^= s[3]
	s[2] ^= t
	s[3] = bits.RotateLeft64(s[3], 45)
	return res
}

func (r *Rng) Intn(n int) int {
	if n <= 1 {
		return 0
	}
	return int(r.Uint64() % uint64(n))
}

func (r *Rng) Bool() bool { return r.Uint64()&1 == 1 }

func (r *Rng) Bytes(b []byte) {
	for i := 0; i < len(b); i += 8 {
		v := r.Uint64()
		for j := 0; j < 8 && i+j < len(b); j++ {
			b[i+j] = byte(v >> (8 * j))
		}
	}
}

// Tape hands out bounded integers. In generate mode they come from the PRNG
// and are recorded; in replay mode they come from the recorded list (a value
// is reduced modulo the bound; an exhausted list yields 0, the simplest
// choice by convention).
type Tape struct {
	rng    *Rng
	vals   []uint32
	pos    int
	replay bool
	Over   int // draws past the end of a replayed tape
}

func New(seed uint64) *Tape { return &Tape{rng: NewRng(seed)} }

func Replay(vals []uint32) *Tape { return &Tape{vals: vals, replay: true} }

// Values returns the choices consumed so far (generate mode: all recorded).
func (t *Tape) Values() []uint32 {
	if t.replay {
		n := t.pos
		if n > len(t.vals) {
			n = len(t.vals)
		}
		return append([]uint32(nil), t.vals[:n]...)
	}
	return append([]uint32(nil), t.vals...)
}

// Draw returns an integer in [0,n). By convention 0 is the simplest choice.
func (t *Tape) Draw(n int) int {
	if n <= 1 {
		// still consume a slot so that tapes keep their alignment when a bound
		// changes between candidates
		n = 1
	}
	if t.replay {
		if t.pos >= len(t.vals) {
			t.pos++
			t.Over++
			return 0
		}
		v := t.vals[t.pos]
		t.pos++
		return int(v % uint32(n))
	}
	v := uint32(t.rng.Uint64()>>33) % uint32(n)
	t.vals = append(t.vals, v)
	return int(v)
}

// Range returns an integer in [lo,hi].
func (t *Tape) Range(lo, hi int) int {
	if hi <= lo {
		t.Draw(1)
		return lo
	}
	return lo + t.Draw(hi-lo+1)
}

// Bool is true with probability 1/2; false is the simple choice.
func (t *Tape) Bool() bool { return t.Draw(2) == 1 }

// Chance is true with probability num/den; false is the simple choice.
func (t *Tape) Chance(num, den int) bool { return t.Draw(den) >= den-num }

// Seed draws a 32-bit sub-seed (for bulk data that is not worth recording
// choice by choice, e.g. row contents).
func (t *Tape) Seed() uint64 { return uint64(t.Draw(1 << 30)) }

// Pick returns an index according to integer weights.
func (t *Tape) Weighted(weights ...int) int {
	total := 0
	for _, w := range weights {
		total += w
	}
	v := t.Draw(total)
	for i, w := range weights {
		if v < w {
			return i
		}
		v -= w
	}
	return len(weights) - 1
}
