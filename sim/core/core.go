// Package core holds what every property check shares: the scenario/outcome
// contract, the per-run context (event log hash, probes, fault counters), the
// tape-level shrinker, and replay files.
package core

import (
	"encoding/json"
	"fmt"
	"hash/fnv"
	"os"
	"runtime"
	"runtime/debug"
	"sort"
	"strings"
	"testing"
	"time"

	"pqsim/tape"
)

// T is the *testing.T of the worker process (testing/synctest needs one).
var T *testing.T

// NeedsT reports whether replaying the file needs a *testing.T (never, today:
// the scheduler engine obtains its own through core.T set by the entry point).
func NeedsT(path string) bool { return false }

// Violation is one broken oracle. Class is a stable key (property id, oracle
// tag, and where it matters the access path / call site) used to keep looking
// for the *same* failure while shrinking and to match known findings.
type Violation struct {
	Class  string `json:"class"`
	Detail string `json:"detail"`
}

func (v *Violation) String() string { return v.Class + ": " + v.Detail }

// Ctx is the per-run context. Everything a run does that matters for replay
// goes through Event, whose running hash must be identical when the replay
// file is executed again.
type Ctx struct {
	Tier    string
	Probes  map[string]int
	Faults  map[string]int
	Steps   int
	KeepLog bool
	Log     []string
	Inter   uint64 // hash of the released-goroutine sequence (E3)
	// Deadline, when set, lets enumerations stop early (the batch's wall cap);
	// it only ever truncates an enumeration, it never decides a verdict.
	Deadline time.Time
	h        uint64
	nEvents  int
	unstable bool
}

func NewCtx(tier string) *Ctx {
	return &Ctx{Tier: tier, Probes: map[string]int{}, Faults: map[string]int{}, h: 14695981039346656037}
}

func (c *Ctx) Event(format string, args ...any) {
	s := format
	if len(args) > 0 {
		s = fmt.Sprintf(format, args...)
	}
	for i := 0; i < len(s); i++ {
		c.h = (c.h ^ uint64(s[i])) * 1099511628211
	}
	c.h = (c.h ^ 0xff) * 1099511628211
	c.nEvents++
	if c.KeepLog && len(c.Log) < 4000 {
		c.Log = append(c.Log, s)
	}
}

// Unstable marks the run's event log as not reproducible byte for byte (Go
// map iteration order inside user values); replay then checks the violation
// class only.
func (c *Ctx) Unstable() { c.unstable = true }

func (c *Ctx) Hash() string {
	if c.unstable {
		return ""
	}
	return fmt.Sprintf("%016x", c.h)
}
func (c *Ctx) Events() int    { return c.nEvents }
func (c *Ctx) Probe(n string) { c.Probes[n]++ }
func (c *Ctx) ProbeN(n string, k int) {
	if k != 0 {
		c.Probes[n] += k
	}
}
func (c *Ctx) Fault(kind string) { c.Faults[kind]++ }
func (c *Ctx) Step()             { c.Steps++ }

// Expired reports whether the batch's wall cap has passed.
func (c *Ctx) Expired() bool {
	if c.Deadline.IsZero() {
		return false
	}
	if time.Now().After(c.Deadline) {
		c.Probes["enumeration-cut-by-wall-cap"] = 1
		return true
	}
	return false
}

// Outcome of one run.
type Outcome struct {
	Violation  *Violation
	Nontrivial bool     // the run exercised the property's mechanism (per-property rule)
	Sig        string   // signature used to count distinct cases
	Sample     any      // short description for evidence
	Evals      int      // executions inside the run (enumerations); 0 means 1
	SubSigs    []uint64 // optional: distinct non-trivial sub-cases (enumerations)
	Digest     string   // optional: digest of the run's output, compared across build variants
}

// Expecting is implemented by scenarios whose output digest is compared with
// the one another build variant produced for the same scenario.
type Expecting interface {
	SetExpect(digest, from string)
}

func Violate(class, format string, args ...any) *Violation {
	return &Violation{Class: class, Detail: fmt.Sprintf(format, args...)}
}

// Info documents a property check for evidence files.
type Info struct {
	Level     string   // exploration | fault_enumeration
	Rule      string   // how cases are generated and what counts as distinct/non-trivial
	Real      []string // components that ran real code
	Stubs     []string // components replaced by simulator stubs
	Assume    []string
	FaultKind []string // fault kinds this check can inject
}

// Budget bounds a batch.
type Budget struct {
	Runs    int
	MaxWall time.Duration
	Race    int // additional runs executed under the race-detector build (0 = none)
	Cross   int // first N runs are re-executed by other build/CPU variants and their digests compared (0 = none)
}

// Prop is one property check.
type Prop interface {
	ID() string
	Info() Info
	Budget(tier string) Budget
	Gen(t *tape.Tape, tier string) any // builds a scenario without executing anything
	New() any                          // empty scenario for JSON decoding
	Run(sc any, c *Ctx) Outcome        // pure function of (scenario, code)
}

// Scheduled is implemented by scenarios that carry scheduler decisions.
type Scheduled interface {
	SchedPtr() *[]int
}

// Focusable is implemented by enumeration scenarios: Focus narrows the
// scenario to the single failing case reported in the violation detail so that
// replay does not repeat the whole enumeration.
type Focusable interface {
	Focus(v *Violation)
}

// SafeRun executes p.Run, converting a panic into a violation whose class
// names the first frame inside the library.
func SafeRun(p Prop, sc any, c *Ctx) (out Outcome) {
	defer func() {
		if r := recover(); r != nil {
			frame := panicFrame()
			out.Violation = &Violation{
				Class:  p.ID() + "/panic/" + frame,
				Detail: fmt.Sprintf("panic: %v%s", r, StackIfWanted()),
			}
			c.Event("panic %s", frame)
		}
	}()
	return p.Run(sc, c)
}

// StackIfWanted returns the current stack when PQSIM_STACK is set (triage aid).
func StackIfWanted() string {
	if os.Getenv("PQSIM_STACK") == "" {
		return ""
	}
	return "\n" + string(debug.Stack())
}

// IfStack returns s when PQSIM_STACK is set.
func IfStack(s string) string {
	if os.Getenv("PQSIM_STACK") == "" {
		return ""
	}
	return s
}

func panicFrame() string {
	pcs := make([]uintptr, 64)
	n := runtime.Callers(3, pcs)
	frames := runtime.CallersFrames(pcs[:n])
	first := ""
	for {
		f, more := frames.Next()
		fn := f.Function
		if strings.HasPrefix(fn, "runtime.") {
			if !more {
				break
			}
			continue
		}
		if first == "" {
			first = fn
		}
		if strings.Contains(fn, "parquet-go/parquet-go") {
			return trimFunc(fn)
		}
		if !more {
			break
		}
	}
	return trimFunc(first)
}

func trimFunc(fn string) string {
	fn = strings.TrimPrefix(fn, "github.com/parquet-go/parquet-go")
	fn = strings.TrimPrefix(fn, "/")
	// drop generic instantiation noise and closures numbering
	if i := strings.Index(fn, "[..."); i >= 0 {
		j := strings.Index(fn[i:], "]")
		if j >= 0 {
			fn = fn[:i] + fn[i+j+1:]
		}
	}
	return fn
}

// Replay is the replay file.
type Replay struct {
	Property  string          `json:"property"`
	Class     string          `json:"class"`
	Detail    string          `json:"detail"`
	BaseSeed  uint64          `json:"verif_seed"`
	RunIndex  int             `json:"run_index"`
	RunSeed   uint64          `json:"run_seed"`
	Tier      string          `json:"tier"`
	Variant   string          `json:"variant"`
	EventHash string          `json:"event_hash"`
	Events    int             `json:"events"`
	Shrink    ShrinkStats     `json:"shrink"`
	Tape      []uint32        `json:"tape"`
	Scenario  json.RawMessage `json:"scenario"`
	Trace     []string        `json:"trace"`
}

type ShrinkStats struct {
	Executions int `json:"executions"`
	TapeBefore int `json:"tape_before"`
	TapeAfter  int `json:"tape_after"`
	Accepted   int `json:"accepted"`
}

func WriteReplay(path string, r *Replay) error {
	b, err := json.MarshalIndent(r, "", " ")
	if err != nil {
		return err
	}
	return os.WriteFile(path, b, 0o644)
}

func ReadReplay(path string) (*Replay, error) {
	b, err := os.ReadFile(path)
	if err != nil {
		return nil, err
	}
	r := &Replay{}
	if err := json.Unmarshal(b, r); err != nil {
		return nil, err
	}
	return r, nil
}

// ExecReplay runs a replay file against the current code. It returns the
// violation observed (nil if none) and whether the event log hash matched.
func ExecReplay(p Prop, r *Replay) (*Violation, bool, *Ctx, error) {
	sc := p.New()
	if err := json.Unmarshal(r.Scenario, sc); err != nil {
		return nil, false, nil, fmt.Errorf("scenario: %w", err)
	}
	c := NewCtx(r.Tier)
	c.KeepLog = true
	if w, err := time.ParseDuration(os.Getenv("PQSIM_REPLAY_WALL")); err == nil && w > 0 {
		// confirmation of a hang candidate: an enumeration over many cases stops
		// here (no hang); one case that never returns still runs into the
		// driver's timeout
		c.Deadline = time.Now().Add(w)
	}
	out := SafeRun(p, sc, c)
	return out.Violation, r.EventHash == "" || c.Hash() == r.EventHash, c, nil
}

// Shrink minimises the tape while the same violation class persists.
func Shrink(p Prop, tier string, vals []uint32, class string, maxExec int, maxWall time.Duration) ([]uint32, ShrinkStats) {
	st := ShrinkStats{TapeBefore: len(vals)}
	deadline := time.Now().Add(maxWall)
	cur := append([]uint32(nil), vals...)
	try := func(cand []uint32) bool {
		if st.Executions >= maxExec || time.Now().After(deadline) {
			return false
		}
		st.Executions++
		t := tape.Replay(cand)
		sc := p.Gen(t, tier)
		c := NewCtx(tier)
		out := SafeRun(p, sc, c)
		if out.Violation != nil && out.Violation.Class == class {
			// keep only what the generator consumed
			used := t.Values()
			cur = used
			st.Accepted++
			return true
		}
		return false
	}
	exhausted := func() bool { return st.Executions >= maxExec || time.Now().After(deadline) }

	// trim to what the generator consumes
	try(cur)
	for pass := 0; pass < 3 && !exhausted(); pass++ {
		changed := false
		// 1. delete blocks
		for size := len(cur) / 2; size >= 1 && !exhausted(); size /= 2 {
			for i := len(cur) - size; i >= 0 && !exhausted(); {
				if i+size > len(cur) {
					i = len(cur) - size
					if i < 0 {
						break
					}
				}
				cand := append(append([]uint32(nil), cur[:i]...), cur[i+size:]...)
				if try(cand) {
					changed = true
					// cur changed; continue from same i (now shifted)
					if i > len(cur)-size {
						i = len(cur) - size
					}
				} else {
					i -= size
				}
			}
		}
		// 2. zero blocks then single values, then halve
		for size := 8; size >= 1 && !exhausted(); size /= 2 {
			for i := 0; i+size <= len(cur) && !exhausted(); i += size {
				allZero := true
				for _, v := range cur[i : i+size] {
					if v != 0 {
						allZero = false
					}
				}
				if allZero {
					continue
				}
				cand := append([]uint32(nil), cur...)
				for j := i; j < i+size; j++ {
					cand[j] = 0
				}
				if try(cand) {
					changed = true
				}
			}
		}
		for i := 0; i < len(cur) && !exhausted(); i++ {
			for cur[i] > 0 && !exhausted() {
				cand := append([]uint32(nil), cur...)
				if cand[i] > 16 {
					cand[i] /= 2
				} else {
					cand[i]--
				}
				if !try(cand) {
					break
				}
				changed = true
				if i >= len(cur) {
					break
				}
			}
		}
		if !changed {
			break
		}
	}
	st.TapeAfter = len(cur)
	return cur, st
}

// --- aggregation -----------------------------------------------------------

type Found struct {
	Class    string `json:"class"`
	Detail   string `json:"detail"`
	Replay   string `json:"replay"`
	RunIndex int    `json:"run_index"`
	RunSeed  uint64 `json:"run_seed"`
	Variant  string `json:"variant"`
}

type WorkerResult struct {
	Runs       int            `json:"runs"`
	Evals      int            `json:"evals"`
	Nontrivial int            `json:"nontrivial"`
	Sigs       []uint64       `json:"sigs"`
	Inter      []uint64       `json:"inter"`
	Probes     map[string]int `json:"probes"`
	Faults     map[string]int `json:"faults"`
	Steps      int64          `json:"steps"`
	Events     int64          `json:"events"`
	Found      []Found        `json:"found"`
	Samples    []any          `json:"samples"`
	WallS      float64        `json:"wall_s"`
	CutShort   bool           `json:"cut_short"`
	Done       bool           `json:"done"`
	Variant    string         `json:"variant"`
	LogHashes  map[int]string `json:"log_hashes,omitempty"`
	Digests    map[int]string `json:"digests,omitempty"`
}

type Job struct {
	Prop        string         `json:"prop"`
	Tier        string         `json:"tier"`
	BaseSeed    uint64         `json:"base_seed"`
	Start       int            `json:"start"`
	Stride      int            `json:"stride"`
	Count       int            `json:"count"` // total runs of the batch (indices < Count)
	MaxWallS    int            `json:"max_wall_s"`
	Out         string         `json:"out"`
	Variant     string         `json:"variant"`
	ReplayDir   string         `json:"replay_dir"`
	KeepHashes  bool           `json:"keep_hashes"`
	KeepDigests int            `json:"keep_digests"`
	Expect      map[int]string `json:"expect,omitempty"`
	ExpectFrom  string         `json:"expect_from,omitempty"`
}

func HashString(s string) uint64 {
	h := fnv.New64a()
	h.Write([]byte(s))
	return h.Sum64()
}

func SortedKeys(m map[string]int) []string {
	ks := make([]string, 0, len(m))
	for k := range m {
		ks = append(ks, k)
	}
	sort.Strings(ks)
	return ks
}
