package props

import (
	"bytes"
	crand "crypto/rand"
	"encoding/binary"
	"errors"
	"fmt"
	"io"
	"pqsim/sched"
	"sort"

	"github.com/parquet-go/parquet-go"

	"pqsim/core"
	"pqsim/env"
	"pqsim/gen"
	"pqsim/tape"
)

// C14 — I/O failures and truncated files are always reported (E2 fault enumerator).

type C14Case struct {
	Kind     string `json:"kind"`
	AtByte   int64  `json:"at_byte,omitempty"`
	Sticky   bool   `json:"sticky,omitempty"`
	Call     int    `json:"call,omitempty"`
	Cut      int    `json:"cut,omitempty"`
	CutAbs   int64  `json:"cut_abs,omitempty"`
	TruncLen int64  `json:"trunc_len,omitempty"`
}

func (k C14Case) String() string {
	return fmt.Sprintf("%s byte=%d call=%d cut=%d cutabs=%d trunc=%d sticky=%v", k.Kind, k.AtByte, k.Call, k.Cut, k.CutAbs, k.TruncLen, k.Sticky)
}

type C14Scenario struct {
	Mode       string     `json:"mode"` // sink | trunc | source | copy
	Plan       WritePlan  `json:"plan"`
	Pools      PoolPolicy `json:"pools"`
	F          gen.FOpts  `json:"file_opts"`
	ReadPath   string     `json:"read_path"`
	Batches    []int      `json:"batches"`
	SampleSeed uint64     `json:"sample_seed"`
	MaxCases   int        `json:"max_cases"` // 0 = enumerate every position
	Only       *C14Case   `json:"only,omitempty"`
	Failed     *C14Case   `json:"failed,omitempty"`
	SchedSeed  uint64     `json:"sched_seed,omitempty"`
}

func (s *C14Scenario) Focus(v *core.Violation) {
	if s.Failed != nil {
		k := *s.Failed
		s.Only = &k
	}
}

type C14 struct{}

func (C14) ID() string { return "C14" }

func (C14) Info() core.Info {
	return core.Info{
		Level: "fault_enumeration",
		Rule: "one run = one seeded scenario (writer history + options) whose fault-free I/O trace is recorded, then re-executed once per enumerated single fault: " +
			"sink: byte offset x {err, torn, err-after-full, short-noerr} x {sticky, one-shot}; trunc: strict prefix lengths; source: ReadAt call index x {err, short+err, short+EOF} x cut, the file read through row groups, Reader, typed reader, pages, lazily read bloom filters of a multi row group view, or its row groups as the inputs of a sorted merge (every delivered row a written row not delivered before, a clean end delivers all); copy: source faults while WriteRowGroup copies chunks. " +
			"quick samples positions (all call boundaries +-1 first), thorough enumerates every position of each sampled file. evaluations = executions; distinct non-trivial = distinct (scenario, fault case) pairs whose fault actually fired inside an operation",
		Real:      []string{"parquet-go writer/reader/copy path (all real code from /repo)"},
		Stubs:     []string{"destination io.Writer (SimSink, fault injecting)", "source io.ReaderAt (SimFile, fault injecting)", "page BufferPool (SimBufferPool, benign behaviours only)", "internal/memory.Pool (deterministic H1/H2)"},
		Assume:    []string{"exactly one fault per execution; files are sampled (<= ~20 KiB), positions enumerated per file", "after the first reported error the writer/reader is abandoned: nothing is assumed about continuing"},
		FaultKind: append(append([]string{}, env.SinkKinds...), env.SrcErr, env.SrcShortErr, env.SrcShortEOF, "truncate"),
	}
}

func (C14) Budget(tier string) core.Budget {
	if tier == "thorough" {
		return core.Budget{Runs: 1600, MaxWall: 30 * 60e9}
	}
	return core.Budget{Runs: 200, MaxWall: 45e9}
}

func (C14) New() any { return &C14Scenario{} }

func (C14) Gen(t *tape.Tape, tier string) any {
	sc := &C14Scenario{}
	sc.Mode = []string{"sink", "source", "trunc", "copy"}[t.Weighted(4, 4, 1, 2)]
	shapes := []gen.Shape{gen.ShapeFlat, gen.ShapeNested, gen.ShapeLogical, gen.ShapeDyn, gen.ShapeGen}
	sc.Plan = GenWritePlan(t, shapes, 400)
	if sc.Plan.NRows > 400 {
		sc.Plan.NRows = 400
	}
	sc.Pools = GenPoolPolicy(t)
	sc.F = gen.GenFOpts(t)
	sc.ReadPath = drivePaths[t.Draw(len(drivePaths))]
	sc.Batches = genBatches(t)
	sc.SampleSeed = t.Seed()
	if t.Chance(1, 3) {
		gen.GenBloom(t, gen.ShapeByName(sc.Plan.Shape), &sc.Plan.W)
	}
	if sc.Mode == "source" && t.Chance(1, 6) {
		// the bloom filters as the source under faults: lazily read filters of a
		// file with several row groups, looked up through a multi row group view
		sc.ReadPath = "bloom"
		if len(sc.Plan.W.Bloom) == 0 {
			gen.GenBloom(t, gen.ShapeByName(sc.Plan.Shape), &sc.Plan.W)
		}
		sc.Plan.W.BloomGzip = false
		sc.F.PrefetchBloom, sc.F.SkipBloomFilters = false, false
		if sc.Plan.W.MaxRowsPerGroup == 0 || sc.Plan.W.MaxRowsPerGroup > int64(sc.Plan.NRows/2) {
			sc.Plan.W.MaxRowsPerGroup = int64(max(1, sc.Plan.NRows/3))
		}
	}
	if sc.Mode == "source" && sc.ReadPath != "bloom" && t.Chance(1, 4) {
		// the row groups of the file as the inputs of a sorted merge: a fault met
		// while an input is refilled must end the merge with an error, never be
		// taken for the end of that input
		sc.ReadPath = "merge"
		if sc.Plan.NRows < 100 {
			// inputs longer than the merge's first row buffer, so they are refilled
			sc.Plan.NRows = 100 + t.Draw(300)
			sc.Plan.Ops = genOps(t, sc.Plan.NRows)
		}
		// several pages per chunk, each fetched by its own ReadAt: the faults land
		// on refills, not only on the first fill of every input
		if sc.Plan.W.PageBufferSize == 0 || sc.Plan.W.PageBufferSize > 256 {
			sc.Plan.W.PageBufferSize = []int{32, 64, 256}[t.Draw(3)]
		}
		if sc.F.ReadBufferSize == 0 || sc.F.ReadBufferSize > 512 {
			sc.F.ReadBufferSize = []int{16, 64, 512}[t.Draw(3)]
		}
		if t.Bool() {
			// exactly two inputs: the two-way merge
			sc.Plan.Ops = []WOp{{Op: "write", N: sc.Plan.NRows}}
			sc.Plan.W.MaxRowsPerGroup = int64((sc.Plan.NRows + 1) / 2)
		} else if sc.Plan.W.MaxRowsPerGroup == 0 || sc.Plan.W.MaxRowsPerGroup > int64(sc.Plan.NRows/2) {
			sc.Plan.W.MaxRowsPerGroup = int64(max(1, sc.Plan.NRows/(2+t.Draw(3))))
		}
	}
	// asynchronous read mode runs under the E3 scheduler (real goroutine
	// parallelism would make the faulted call index unrepeatable): the page
	// goroutines park at every ReadAt and a seeded scheduler picks who proceeds
	if sc.Mode == "source" && sc.ReadPath != "merge" && t.Chance(1, 4) {
		sc.F.Async = true
		sc.F.Optimistic = false
		sc.SchedSeed = t.Seed()
		if sc.ReadPath == "pages" || sc.ReadPath == "bloom" {
			sc.ReadPath = "rowgroups"
		}
	}
	if (sc.Mode == "source" || sc.Mode == "trunc") && sc.ReadPath != "bloom" && t.Chance(1, 5) {
		// the same faults on an encrypted file: what ends early there is a module
		sc.Plan.W.EncryptKey = []byte("pqsim-c14-key-16")
		sc.Plan.W.EncryptedFooter = t.Bool()
		sc.F.DecryptKey = sc.Plan.W.EncryptKey
	}
	if tier == "thorough" {
		sc.MaxCases = 0
		if t.Chance(1, 2) {
			sc.MaxCases = 400
		}
	} else {
		sc.MaxCases = 48
	}
	if sc.F.Async {
		// every execution is a scheduler run of hundreds of decisions: fewer fault positions, smaller files
		sc.MaxCases = min(sc.MaxCases, 10)
		if sc.MaxCases == 0 {
			sc.MaxCases = 40
		}
		if sc.Plan.NRows > 80 {
			sc.Plan.NRows = 80
			sc.Plan.Ops = []WOp{{Op: "write", N: 50}, {Op: "write", N: 30}}
		}
	}
	return sc
}

type c14run struct {
	sc    *C14Scenario
	c     *core.Ctx
	out   *core.Outcome
	sh    gen.Shape
	data  gen.Data
	evals int
	sigs  []uint64
	base  string
}

func (r *c14run) fired(k C14Case) {
	r.sigs = append(r.sigs, core.HashString(r.base+k.String()))
}

// guard runs f, converting a panic into a violation for case k.
func (r *c14run) guard(k C14Case, what string, f func() *core.Violation) (v *core.Violation) {
	defer func() {
		if p := recover(); p != nil {
			v = core.Violate("C14/"+r.sc.Mode+"/panic/"+what, "panic with fault %s: %v%s", k, p, core.StackIfWanted())
		}
		if v != nil {
			kk := k
			r.sc.Failed = &kk
			v.Detail = fmt.Sprintf("[fault %s] %s", k, v.Detail)
		}
	}()
	r.evals++
	return f()
}

func (C14) Run(s any, c *core.Ctx) core.Outcome {
	sc := s.(*C14Scenario)
	sc.Failed = nil
	out := core.Outcome{}
	r := &c14run{sc: sc, c: c, out: &out}
	r.sh, r.data = sc.Plan.MakeData()
	r.base = fmt.Sprintf("%s|%s|%d|%d|%s|", sc.Mode, sc.Plan.Shape, sc.Plan.RowSeed, sc.Plan.NRows, sc.Plan.W.Sig())
	sc.Pools.Install()
	c.Probe("read-path-" + sc.ReadPath)
	if len(sc.Plan.W.EncryptKey) > 0 {
		// nonces and the file identifier come from a seeded stream: runs replay byte for byte
		old := crand.Reader
		crand.Reader = detRand{tape.NewRng(sc.SampleSeed)}
		defer func() { crand.Reader = old }()
		c.Probe("encrypted-files")
	}
	// fault-free execution
	ref := sc.Plan.Execute(c, nil, r.data)
	if ref.FirstErr != nil {
		out.Violation = core.Violate("C14/fault-free-write-error/"+ref.ErrOp, "%v", ref.FirstErr)
		return out
	}
	good := append([]byte(nil), ref.Sink.Bytes()...)
	var v *core.Violation
	switch sc.Mode {
	case "sink":
		v = r.sinkFaults(good, ref.Sink.Bounds)
	case "trunc":
		v = r.truncations(good)
	case "source":
		v = r.sourceFaults(good)
	case "copy":
		v = r.copyFaults(good)
	}
	out.Violation = v
	out.Evals = r.evals
	out.SubSigs = r.sigs
	out.Nontrivial = len(r.sigs) > 0
	out.Sample = map[string]any{"mode": sc.Mode, "shape": sc.Plan.Shape, "rows": sc.Plan.NRows, "file_bytes": len(good), "cases": r.evals, "opts": sc.Plan.W.Sig()}
	return out
}

// positions returns the byte offsets to fault: every call boundary and its
// neighbours first, then a seeded sample, or everything when max == 0.
func samplePositions(n int64, bounds []int64, max int, seed uint64) []int64 {
	if n <= 0 {
		return nil
	}
	if max == 0 || int64(max) >= n {
		all := make([]int64, n)
		for i := range all {
			all[i] = int64(i)
		}
		return all
	}
	seen := map[int64]bool{}
	var out []int64
	add := func(p int64) {
		if p >= 0 && p < n && !seen[p] && len(out) < max {
			seen[p] = true
			out = append(out, p)
		}
	}
	rng := tape.NewRng(seed)
	// boundaries in random order so a cap does not always favour the file start
	bs := append([]int64(nil), bounds...)
	for i := len(bs) - 1; i > 0; i-- {
		j := rng.Intn(i + 1)
		bs[i], bs[j] = bs[j], bs[i]
	}
	add(0)
	add(n - 1)
	for _, b := range bs {
		if len(out) >= max*2/3 {
			break
		}
		add(b)
		add(b - 1)
		add(b + 1)
	}
	for len(out) < max {
		add(int64(rng.Uint64() % uint64(n)))
		if len(seen) >= int(n) {
			break
		}
	}
	sort.Slice(out, func(i, j int) bool { return out[i] < out[j] })
	return out
}

func (r *c14run) sinkFaults(good []byte, bounds []int64) *core.Violation {
	sc := r.sc
	run1 := func(k C14Case) *core.Violation {
		return r.guard(k, k.Kind, func() *core.Violation {
			sc.Pools.Install()
			fault := &env.SinkFault{Kind: k.Kind, AtByte: k.AtByte, Sticky: k.Sticky}
			res := sc.Plan.Execute(r.c, fault, r.data)
			if res.Sink.Fired == 0 {
				return nil // offset beyond what this execution offered
			}
			r.fired(k)
			wb := "buffered"
			if sc.Plan.W.WriteBufferSize == 0 {
				wb = "unbuffered"
			}
			same := bytes.Equal(res.Sink.Bytes(), good)
			if k.Kind != env.SinkShortNoErr && res.FirstErr == nil {
				return core.Violate("C14/sink/"+k.Kind+"/error-swallowed/"+wb, "the sink returned an error at offered byte %d but every Write/Flush/Close returned nil", k.AtByte)
			}
			if res.FirstErr == nil && !same {
				return core.Violate("C14/sink/"+k.Kind+"/silent-loss/"+wb, "every Write/Flush/Close returned nil but the sink holds %d bytes that differ from the %d-byte fault-free file", len(res.Sink.Bytes()), len(good))
			}
			return nil
		})
	}
	if sc.Only != nil {
		return run1(*sc.Only)
	}
	// the offered stream equals the file when nothing is re-sent
	for _, pos := range samplePositions(int64(len(good)), bounds, sc.MaxCases, sc.SampleSeed) {
		if r.c.Expired() {
			break
		}
		for _, kind := range env.SinkKinds {
			for _, sticky := range []bool{true, false} {
				if kind == env.SinkShortNoErr && sticky {
					continue
				}
				if v := run1(C14Case{Kind: kind, AtByte: pos, Sticky: sticky}); v != nil {
					return v
				}
			}
		}
	}
	return nil
}

func (r *c14run) truncations(good []byte) *core.Violation {
	sc := r.sc
	run1 := func(k C14Case) *core.Violation {
		return r.guard(k, "truncate", func() *core.Violation {
			sf := env.NewFile(r.c, good[:k.TruncLen])
			sf.EOFAtEnd = sc.F.EOFAtEnd
			r.c.Fault("truncate")
			r.fired(k)
			res := drive(r.c, "C14", sf, sc.F, sc.ReadPath, r.sh, r.data, &batches{sizes: sc.Batches})
			if res.Wrong != nil {
				res.Wrong.Class = "C14/trunc/wrong-data/" + sc.ReadPath
				return res.Wrong
			}
			if res.Err == nil {
				return core.Violate("C14/trunc/accepted/"+sc.ReadPath, "a %d-byte prefix of the %d-byte file opened and read to a clean end (%d rows, complete=%v)", k.TruncLen, len(good), res.Delivered, res.Complete)
			}
			return nil
		})
	}
	if sc.Only != nil {
		return run1(*sc.Only)
	}
	max := sc.MaxCases
	if max > 0 {
		max *= 4
	}
	for _, l := range samplePositions(int64(len(good)), []int64{4, 8, int64(len(good)) - 8, int64(len(good)) - 4}, max, sc.SampleSeed) {
		if v := run1(C14Case{Kind: "truncate", TruncLen: l}); v != nil {
			return v
		}
	}
	return nil
}

// classify applies the C14 source oracle to a drive result.
func c14Classify(mode, kind, path string, res driveResult, total int) *core.Violation {
	if res.Wrong != nil {
		res.Wrong.Class = "C14/" + mode + "/" + kind + "/wrong-data/" + path
		return res.Wrong
	}
	if res.Err == nil && !res.Complete {
		return core.Violate("C14/"+mode+"/"+kind+"/clean-end-missing-rows/"+path, "the reader ended without error after %d of %d rows", res.Delivered, total)
	}
	return nil
}

func (r *c14run) sourceFaults(good []byte) *core.Violation {
	sc := r.sc
	// fault-free trace
	sc.Pools.Install()
	sf := env.NewFile(r.c, good)
	sf.EOFAtEnd = sc.F.EOFAtEnd
	sf.Log = true
	r.evals++
	ref := r.driveSrc(sf)
	if ref.Wrong != nil || ref.Err != nil || !ref.Complete {
		if ref.Wrong != nil {
			return ref.Wrong
		}
		return core.Violate("C14/fault-free-read/"+sc.ReadPath, "fault-free read failed: err=%v complete=%v delivered=%d", ref.Err, ref.Complete, ref.Delivered)
	}
	calls := append([]env.ReadCall(nil), sf.Calls...)
	run1 := func(k C14Case) *core.Violation {
		return r.guard(k, k.Kind, func() *core.Violation {
			sc.Pools.Install()
			f := env.NewFile(r.c, good)
			f.EOFAtEnd = sc.F.EOFAtEnd
			f.Arm(&env.SrcFault{Kind: k.Kind, Call: k.Call, Cut: k.Cut, CutAbs: k.CutAbs, Sticky: k.Sticky})
			res := r.driveSrc(f)
			if f.Fired == 0 {
				return nil
			}
			r.fired(k)
			return c14Classify("source", k.Kind, sc.ReadPath, res, r.data.Len())
		})
	}
	if sc.Only != nil {
		return run1(*sc.Only)
	}
	pageStarts := pageBoundaries(good)
	idx := make([]int64, len(calls))
	for i := range idx {
		idx[i] = int64(i)
	}
	maxCalls := sc.MaxCases
	for _, ci := range samplePositions(int64(len(calls)), idx, maxCalls, sc.SampleSeed) {
		if r.c.Expired() {
			break
		}
		call := calls[ci]
		for _, kind := range env.SrcKinds {
			cuts := []C14Case{{Kind: kind, Call: int(ci), Cut: 0, CutAbs: -1}}
			if kind != env.SrcErr && call.N > 1 {
				cuts = append(cuts, C14Case{Kind: kind, Call: int(ci), Cut: call.N / 2, CutAbs: -1}, C14Case{Kind: kind, Call: int(ci), Cut: call.N - 1, CutAbs: -1})
				nb := 0
				for _, ps := range pageStarts {
					if ps > call.Off && ps < call.Off+int64(call.N) && nb < 6 {
						cuts = append(cuts, C14Case{Kind: kind, Call: int(ci), Cut: 0, CutAbs: ps})
						nb++
					}
				}
			}
			for _, k := range cuts {
				k.Sticky = (ci+int64(k.Cut))%2 == 0
				if v := run1(k); v != nil {
					return v
				}
			}
		}
	}
	return nil
}

// driveSrc reads the file through the scenario's path; in asynchronous read
// mode the whole read runs as one task under the scheduler, the library's page
// goroutines parking at every ReadAt.
func (r *c14run) driveSrc(f *env.SimFile) driveResult {
	sc := r.sc
	if !sc.F.Async {
		return drive(r.c, "C14", f, sc.F, sc.ReadPath, r.sh, r.data, &batches{sizes: sc.Batches})
	}
	var S *sched.S
	f.Gate = func(off int64, n int) {
		if S != nil && !inSyncOnce() {
			S.Yield("readat", fmt.Sprintf("%d+%d", off, n))
		}
	}
	var res driveResult
	dec := sched.NewDecisions(sc.SchedSeed, nil)
	sres := sched.Run(core.T, dec, 60000, nil, func(s *sched.S) { S = s }, []func(*sched.S){func(*sched.S) {
		res = drive(r.c, "C14", f, sc.F, sc.ReadPath, r.sh, r.data, &batches{sizes: sc.Batches})
	}}, nil)
	f.Gate = nil
	r.c.ProbeN("sched-decisions", sres.Steps)
	r.c.Probe("async-executions")
	if sres.Panic != nil {
		panic(fmt.Sprintf("%v (in the reading task under the scheduler)", sres.Panic))
	}
	if sres.Deadlock != "" && res.Err == nil && res.Wrong == nil {
		res.Wrong = core.Violate("C14/source/deadlock/async", "%s after %d decisions", sres.Deadlock, sres.Steps)
	}
	return res
}

// pageBoundaries lists the file offsets at which pages start or chunks end,
// from the offset index of a fault-free open.
func pageBoundaries(good []byte) []int64 {
	f, err := parquet.OpenFile(bytes.NewReader(good), int64(len(good)))
	if err != nil {
		// an encrypted file: the module envelopes are the boundaries
		flen := int64(binary.LittleEndian.Uint32(good[len(good)-8:]))
		mods, _ := walkModules(good, int64(len(good))-8-flen)
		var out []int64
		for _, m := range mods {
			out = append(out, m[0])
		}
		return out
	}
	seen := map[int64]bool{}
	var out []int64
	for _, rg := range f.RowGroups() {
		for _, cc := range rg.ColumnChunks() {
			oi, err := cc.OffsetIndex()
			if err != nil || oi == nil {
				continue
			}
			for i := 0; i < oi.NumPages(); i++ {
				for _, o := range []int64{oi.Offset(i), oi.Offset(i) + oi.CompressedPageSize(i)} {
					if !seen[o] {
						seen[o] = true
						out = append(out, o)
					}
				}
			}
		}
	}
	sort.Slice(out, func(i, j int) bool { return out[i] < out[j] })
	return out
}

// copyFaults injects source faults while a destination writer with the same
// options copies the row groups of the source file through WriteRowGroup.
func (r *c14run) copyFaults(good []byte) *core.Violation {
	sc := r.sc
	model := r.data.Rows()
	copyOnce := func(f *env.SimFile) (outBytes []byte, firstErr error, stage string, copied int64) {
		src, err := parquet.OpenFile(f, f.Size())
		if err != nil {
			return nil, err, "open-source", 0
		}
		e := &gen.Env{Ctx: r.c}
		sink, face := env.NewSink(r.c, sc.Plan.Sink, nil)
		w := r.sh.NewWriter(gen.WGeneric, face, sc.Plan.W.Options(e)...)
		c0 := parquet.VerifCopyPathCount()
		for _, rg := range src.RowGroups() {
			if _, err := w.WriteRowGroup(rg); err != nil {
				w.Close()
				return sink.Bytes(), err, "write-row-group", parquet.VerifCopyPathCount() - c0
			}
		}
		if err := w.Close(); err != nil {
			return sink.Bytes(), err, "close", parquet.VerifCopyPathCount() - c0
		}
		return sink.Bytes(), nil, "", parquet.VerifCopyPathCount() - c0
	}
	verify := func(outBytes []byte) *core.Violation {
		sf := env.NewFile(nil, outBytes)
		res := drive(r.c, "C14", sf, gen.FOpts{}, "rowgroups", r.sh, r.data, &batches{})
		if res.Wrong != nil {
			return res.Wrong
		}
		if res.Err != nil {
			return core.Violate("C14/copy/output-unreadable", "WriteRowGroup and Close returned nil but the output does not read back: %v", res.Err)
		}
		if !res.Complete {
			return core.Violate("C14/copy/output-incomplete", "WriteRowGroup and Close returned nil but the output holds %d of %d rows", res.Delivered, len(model))
		}
		return nil
	}
	sc.Pools.Install()
	sf := env.NewFile(r.c, good)
	sf.Log = true
	r.evals++
	refOut, err, stage, copied := copyOnce(sf)
	if err != nil {
		return core.Violate("C14/fault-free-copy/"+stage, "%v", err)
	}
	if v := verify(refOut); v != nil {
		v.Class = "C14/fault-free-copy/" + v.Class
		return v
	}
	if copied > 0 {
		r.c.Probe("copy-path-chunks-copied")
	} else {
		r.c.Probe("copy-scenario-without-verbatim-copy")
	}
	calls := append([]env.ReadCall(nil), sf.Calls...)
	run1 := func(k C14Case) *core.Violation {
		return r.guard(k, k.Kind, func() *core.Violation {
			sc.Pools.Install()
			f := env.NewFile(r.c, good)
			f.Arm(&env.SrcFault{Kind: k.Kind, Call: k.Call, Cut: k.Cut, CutAbs: k.CutAbs, Sticky: k.Sticky})
			outBytes, err, _, _ := copyOnce(f)
			if f.Fired == 0 {
				return nil
			}
			r.fired(k)
			if err != nil {
				return nil // reported
			}
			if v := verify(outBytes); v != nil {
				v.Class = "C14/copy/" + k.Kind + "/" + lastSeg(v.Class)
				return v
			}
			return nil
		})
	}
	if sc.Only != nil {
		return run1(*sc.Only)
	}
	idx := make([]int64, len(calls))
	for i := range idx {
		idx[i] = int64(i)
	}
	for _, ci := range samplePositions(int64(len(calls)), idx, sc.MaxCases, sc.SampleSeed) {
		if r.c.Expired() {
			break
		}
		call := calls[ci]
		for _, kind := range env.SrcKinds {
			cuts := []int{0}
			if kind != env.SrcErr && call.N > 1 {
				cuts = append(cuts, call.N/2, call.N-1)
			}
			for _, cut := range cuts {
				if v := run1(C14Case{Kind: kind, Call: int(ci), Cut: cut, CutAbs: -1, Sticky: cut%2 == 0}); v != nil {
					return v
				}
			}
		}
	}
	return nil
}

func lastSeg(s string) string {
	for i := len(s) - 1; i >= 0; i-- {
		if s[i] == '/' {
			return s[i+1:]
		}
	}
	return s
}

var _ = errors.Is
var _ = io.EOF
