// Package props holds one check per claimed property.
package props

import (
	"errors"
	"fmt"
	"io"
	"sort"

	"github.com/parquet-go/parquet-go"

	"pqsim/core"
	"pqsim/env"
	"pqsim/gen"
	"pqsim/tape"
)

// WOp is one writer operation of a history.
type WOp struct {
	Op string `json:"op"` // write | flush
	N  int    `json:"n,omitempty"`
}

// PoolPolicy is the H1 process-wide pool behaviour of a run.
type PoolPolicy struct {
	Mode   int  `json:"mode"` // 0 LIFO, 1 FIFO, 2 no reuse
	Poison bool `json:"poison"`
}

func GenPoolPolicy(t *tape.Tape) PoolPolicy {
	return PoolPolicy{Mode: t.Weighted(3, 1, 1), Poison: !t.Chance(1, 4)}
}

func (p PoolPolicy) Install() {
	parquet.VerifResetPools()
	parquet.VerifSetPoolPolicy(int32(p.Mode), p.Poison, nil)
}

// WritePlan is a writer history: which writer, which options, which rows,
// split into which Write/Flush calls.
type WritePlan struct {
	Shape      string        `json:"shape"`
	WriterKind string        `json:"writer_kind"`
	Profile    int           `json:"profile"`
	RowSeed    uint64        `json:"row_seed"`
	NRows      int           `json:"n_rows"`
	W          gen.WOpts     `json:"w"`
	Sink       env.SinkFaces `json:"sink"`
	Ops        []WOp         `json:"ops"`
}

func genRowCount(t *tape.Tape, max int) int {
	switch t.Weighted(1, 2, 4, 3) {
	case 0:
		return t.Range(0, 3)
	case 1:
		return t.Range(1, 40)
	case 2:
		return t.Range(20, max/4+20)
	}
	return t.Range(max/4, max)
}

func genOps(t *tape.Tape, n int) []WOp {
	var ops []WOp
	left := n
	for left > 0 && len(ops) < 40 {
		var k int
		switch t.Weighted(2, 3, 2, 1) {
		case 0:
			k = left
		case 1:
			k = t.Range(1, 200)
		case 2:
			k = t.Range(1, 10)
		case 3:
			k = 0
		}
		if k > left {
			k = left
		}
		if k > 0 && t.Chance(1, 12) {
			// the next k rows as a row group of their own: a buffer declaring its sorting
			// (by id, the order they are in) handed to WriteRowGroup
			ops = append(ops, WOp{Op: "sortedrg", N: k})
		} else {
			ops = append(ops, WOp{Op: "write", N: k})
		}
		left -= k
		if t.Chance(1, 4) {
			ops = append(ops, WOp{Op: "flush"})
		}
		if t.Chance(1, 16) {
			ops = append(ops, WOp{Op: "emptyrg"}) // WriteRowGroup of a row group without rows
		}
	}
	if left > 0 {
		ops = append(ops, WOp{Op: "write", N: left})
	}
	if t.Chance(1, 6) {
		ops = append(ops, WOp{Op: "flush"})
	}
	return ops
}

func GenWritePlan(t *tape.Tape, shapes []gen.Shape, maxRows int) WritePlan {
	sh := gen.Resolve(t, shapes[t.Draw(len(shapes))])
	p := WritePlan{
		Shape:      sh.Name(),
		WriterKind: gen.WriterKinds[t.Weighted(4, 2, 2, 2, 1, 2)],
		Profile:    t.Draw(3),
		RowSeed:    t.Seed(),
		NRows:      genRowCount(t, maxRows),
	}
	p.W = gen.GenWOpts(t, sh)
	p.Sink = env.SinkFaces{ReaderFrom: t.Chance(1, 3), StringWriter: t.Chance(1, 3)}
	p.Ops = genOps(t, p.NRows)
	return p
}

// Written is the result of executing a write plan.
type Written struct {
	Shape gen.Shape
	Data  gen.Data
	Sink  *env.SimSink
	Env   *gen.Env
	W     gen.Writer
	// FirstErr is the first non-nil error returned by Write/Flush/Close and the
	// operation that returned it.
	FirstErr error
	ErrOp    string
	Short    bool // a Write accepted fewer rows than offered without error
}

func (p *WritePlan) MakeData() (gen.Shape, gen.Data) {
	sh := gen.ShapeByName(p.Shape)
	return sh, sh.Make(p.RowSeed, p.NRows, gen.Profile(p.Profile))
}

// Execute runs the history against a fresh writer on a simulated sink. With
// stopOnErr the history is abandoned at the first error (the library promises
// nothing about a writer that has failed) but Close is still attempted.
func (p *WritePlan) Execute(c *core.Ctx, fault *env.SinkFault, data gen.Data) *Written {
	sh := gen.ShapeByName(p.Shape)
	if data == nil {
		_, data = p.MakeData()
	}
	e := &gen.Env{Ctx: c}
	sink, face := env.NewSink(c, p.Sink, fault)
	w := sh.NewWriter(p.WriterKind, face, p.W.Options(e)...)
	res := &Written{Shape: sh, Data: data, Sink: sink, Env: e, W: w}
	res.RunOps(c, p.Ops, 0)
	return res
}

// RunOps applies ops then Close to res.W, writing rows starting at cursor.
func (res *Written) RunOps(c *core.Ctx, ops []WOp, cursor int) {
	w := res.W
	fail := func(op string, err error) {
		if res.FirstErr == nil {
			res.FirstErr = err
			res.ErrOp = op
		}
	}
	for i, op := range ops {
		if res.FirstErr != nil {
			break
		}
		c.Step()
		switch op.Op {
		case "write":
			hi := cursor + op.N
			if hi > res.Data.Len() {
				hi = res.Data.Len()
			}
			n, err := w.Write(res.Data, cursor, hi)
			c.Event("op%d write %d -> %d %v", i, hi-cursor, n, err != nil)
			if err != nil {
				fail("write", err)
			} else if n != hi-cursor {
				res.Short = true
				fail("write", fmt.Errorf("short write: %d of %d rows and nil error", n, hi-cursor))
			}
			cursor = hi
		case "flush":
			err := w.Flush()
			c.Event("op%d flush %v", i, err != nil)
			if err != nil {
				fail("flush", err)
			}
		case "emptyrg":
			_, err := w.WriteRowGroup(res.Shape.NewBuffer(gen.BUntyped))
			c.Event("op%d emptyrg %v", i, err != nil)
			if err != nil {
				fail("write-empty-row-group", err)
			}
		case "sortedrg":
			hi := min(cursor+op.N, res.Data.Len())
			err := writeSortedRowGroup(w, res.Shape, res.Data, cursor, hi)
			c.Event("op%d sortedrg %d %v", i, hi-cursor, err != nil)
			if err != nil {
				fail("write-sorted-row-group", err)
			}
			cursor = hi
		}
	}
	err := w.Close()
	c.Event("close %v", err != nil)
	if err != nil {
		fail("close", err)
	}
}

// ---- reading back ----------------------------------------------------------

// rowCursor compares rows delivered by a reader against the model.
type rowCursor struct {
	prop   string
	path   string
	model  []parquet.Row
	pos    int
	stalls int
}

// check validates one ReadRows result. It returns done=true at a clean EOF.
func (rc *rowCursor) check(buf []parquet.Row, n int, err error, asked int) (done bool, v *core.Violation) {
	if n < 0 || n > asked {
		return true, core.Violate(rc.prop+"/bad-count/"+rc.path, "ReadRows returned n=%d for a buffer of %d", n, asked)
	}
	for i := 0; i < n; i++ {
		if rc.pos+i >= len(rc.model) {
			return true, core.Violate(rc.prop+"/extra-rows/"+rc.path, "reader delivered more than the %d rows written", len(rc.model))
		}
		if d := gen.RowDiff(rc.model[rc.pos+i], buf[i]); d != "" {
			return true, core.Violate(rc.prop+"/row-differs/"+rc.path, "row %d: %s", rc.pos+i, d)
		}
	}
	rc.pos += n
	if err != nil {
		if errors.Is(err, io.EOF) {
			if rc.pos != len(rc.model) {
				return true, core.Violate(rc.prop+"/early-eof/"+rc.path, "io.EOF after %d of %d rows", rc.pos, len(rc.model))
			}
			return true, nil
		}
		return true, core.Violate(rc.prop+"/read-error/"+rc.path, "after %d rows: %v", rc.pos, err)
	}
	if n == 0 && asked > 0 {
		rc.stalls++
		if rc.stalls >= 8 {
			return true, core.Violate(rc.prop+"/no-progress/"+rc.path, "8 consecutive ReadRows calls returned (0, nil) at row %d", rc.pos)
		}
	} else {
		rc.stalls = 0
	}
	return false, nil
}

// batches cycles through read batch sizes.
type batches struct {
	sizes []int
	i     int
}

func (b *batches) next() int {
	if len(b.sizes) == 0 {
		return 64
	}
	n := b.sizes[b.i%len(b.sizes)]
	b.i++
	return n
}

func genBatches(t *tape.Tape) []int {
	n := t.Range(1, 4)
	out := make([]int, n)
	for i := range out {
		out[i] = []int{64, 1, 2, 7, 100, 300, 1000}[t.Draw(7)]
	}
	return out
}

// readAllRows drains a RowReader against the model from the cursor position.
func readAllRows(r parquet.RowReader, rc *rowCursor, b *batches, c *core.Ctx) *core.Violation {
	for iter := 0; ; iter++ {
		n := b.next()
		buf := make([]parquet.Row, n)
		m, err := r.ReadRows(buf)
		c.Step()
		c.Event("%s readrows %d -> %d %v", rc.path, n, m, err)
		done, v := rc.check(buf, m, err, n)
		if v != nil {
			return v
		}
		if done {
			return nil
		}
		if iter > 1_000_000 {
			return core.Violate(rc.prop+"/no-progress/"+rc.path, "reader did not finish")
		}
	}
}

func openFile(c *core.Ctx, data []byte, fo gen.FOpts) (*env.SimFile, *parquet.File, error) {
	sf := env.NewFile(c, data)
	sf.EOFAtEnd = fo.EOFAtEnd
	f, err := parquet.OpenFile(sf, sf.Size(), fo.Options()...)
	return sf, f, err
}

// writeSortedRowGroup writes rows [lo, hi) as a buffer that declares its
// sorting by id (the order the rows are in) through WriteRowGroup.
func writeSortedRowGroup(w gen.Writer, sh gen.Shape, data gen.Data, lo, hi int) error {
	if hi <= lo {
		return nil
	}
	buf := sh.NewBuffer(gen.BGeneric, parquet.SortingRowGroupConfig(parquet.SortingColumns(parquet.Ascending("id"))))
	if _, err := buf.Write(data, lo, hi); err != nil {
		return err
	}
	sort.Sort(buf)
	_, err := w.WriteRowGroup(buf)
	return err
}
