package props

import (
	"errors"
	"fmt"
	"io"

	"github.com/parquet-go/parquet-go"

	"pqsim/core"
	"pqsim/gen"
	"pqsim/tape"
)

// C01 — write then read returns exactly the rows written (E1 storage-sim).

type C01Scenario struct {
	Plan     WritePlan  `json:"plan"`
	Pools    PoolPolicy `json:"pools"`
	F        gen.FOpts  `json:"file_opts"`
	ReadPath string     `json:"read_path"`
	Batches  []int      `json:"batches"`
}

var c01ReadPaths = []string{"rowgroups", "reader", "typed", "readall", "multi"}

type C01 struct{}

func (C01) ID() string { return "C01" }

func (C01) Info() core.Info {
	return core.Info{
		Level: "exploration",
		Rule: "one run = one seeded writer history (writer kind x option swarm x Write/Flush split) on a simulated sink with simulated page-buffer pools and a deterministic process pool (H1/H2), read back through one of five read paths on a simulated ReaderAt and compared row by row with the model (the Go slice handed to the writer). " +
			"distinct = distinct (shape, writer kind, options, op-shape, read path) signatures; non-trivial = the file has >= 2 data pages in some column or >= 2 row groups AND >= 1 row",
		Real:   []string{"parquet-go writer, column buffers, encodings, codecs, thrift, page index, reader (all real code from /repo)"},
		Stubs:  []string{"destination io.Writer (SimSink)", "source io.ReaderAt (SimFile)", "page BufferPool (SimBufferPool, in a third of runs)", "internal/memory.Pool (deterministic H1 pool with poison-on-release H2)"},
		Assume: []string{"row values and schemas come from seeded generation over a fixed catalogue of four Go struct types; this dimension is sampling", "library compiled with go1.26.8 and tags verif,debug"},
	}
}

func (C01) Budget(tier string) core.Budget {
	if tier == "thorough" {
		return core.Budget{Runs: 60000, MaxWall: 15 * 60e9}
	}
	return core.Budget{Runs: 4000, MaxWall: 50e9}
}

func (C01) New() any { return &C01Scenario{} }

func (C01) Gen(t *tape.Tape, tier string) any {
	sc := &C01Scenario{}
	sc.Plan = GenWritePlan(t, append(append([]gen.Shape{}, gen.Shapes...), gen.ShapeDyn, gen.ShapeDyn, gen.ShapeDynMap, gen.ShapeGen, gen.ShapeGen, gen.ShapeGenMap), 2000)
	sc.Pools = GenPoolPolicy(t)
	sc.F = gen.GenFOpts(t)
	sc.ReadPath = c01ReadPaths[t.Draw(len(c01ReadPaths))]
	sc.Batches = genBatches(t)
	if t.Chance(1, 3) {
		gen.GenBloom(t, gen.ShapeByName(sc.Plan.Shape), &sc.Plan.W)
	}
	return sc
}

func (C01) Run(s any, c *core.Ctx) core.Outcome {
	sc := s.(*C01Scenario)
	sc.Pools.Install()
	out := core.Outcome{}
	res := sc.Plan.Execute(c, nil, nil)
	sh := res.Shape
	if sh.HasMap() {
		c.Unstable()
	}
	if res.FirstErr != nil {
		out.Violation = core.Violate("C01/write-error/"+res.ErrOp, "fault-free %s failed: %v", res.ErrOp, res.FirstErr)
		return out
	}
	if an := res.Env.PoolAnomalies(); len(an) > 0 {
		out.Violation = core.Violate("C01/buffer-pool-misuse", "%s", an[0])
		return out
	}
	bytes := res.Sink.Bytes()
	model := res.Data.Rows()
	sf, f, err := openFile(c, bytes, sc.F)
	if err != nil {
		out.Violation = core.Violate("C01/open-error", "OpenFile on a file whose Close succeeded: %v", err)
		return out
	}
	if f.NumRows() != int64(len(model)) {
		out.Violation = core.Violate("C01/num-rows", "file reports %d rows, %d were written", f.NumRows(), len(model))
		return out
	}
	// probes / non-triviality
	maxPages := 0
	for _, rg := range f.RowGroups() {
		for _, cc := range rg.ColumnChunks() {
			if oi, err := cc.OffsetIndex(); err == nil && oi != nil && oi.NumPages() > maxPages {
				maxPages = oi.NumPages()
			}
		}
	}
	nrg := len(f.RowGroups())
	out.Nontrivial = len(model) > 0 && (maxPages >= 2 || nrg >= 2)
	if nrg >= 2 {
		c.Probe("multi-row-group")
	}
	if maxPages >= 2 {
		c.Probe("multi-page")
	}
	c01FallbackProbe(f, c)
	out.Sig = fmt.Sprintf("%s|%s|%s|ops%d|%s|rg%d|pg%d", sc.Plan.Shape, sc.Plan.WriterKind, sc.Plan.W.Sig(), len(sc.Plan.Ops), sc.ReadPath, min(nrg, 3), min(maxPages, 3))
	out.Sample = map[string]any{"shape": sc.Plan.Shape, "writer": sc.Plan.WriterKind, "rows": len(model), "ops": len(sc.Plan.Ops), "read_path": sc.ReadPath, "row_groups": nrg, "max_pages": maxPages, "opts": sc.Plan.W.Sig()}

	b := &batches{sizes: sc.Batches}
	path := sc.ReadPath
	if sh.HasMap() && (path == "rowgroups" || path == "reader" || path == "multi") {
		path = "typed" // map entries have no defined order at the row level
	}
	switch path {
	case "rowgroups":
		pos := 0
		for i, rg := range f.RowGroups() {
			n := int(rg.NumRows())
			if pos+n > len(model) {
				out.Violation = core.Violate("C01/num-rows", "row group %d claims %d rows beyond the %d written", i, n, len(model))
				return out
			}
			rows := rg.Rows()
			rc := &rowCursor{prop: "C01", path: path, model: model[pos : pos+n]}
			v := readAllRows(rows, rc, b, c)
			cerr := rows.Close()
			if v != nil {
				v.Detail = fmt.Sprintf("row group %d (rows %d..%d): %s", i, pos, pos+n, v.Detail)
				out.Violation = v
				return out
			}
			if cerr != nil {
				out.Violation = core.Violate("C01/close-error/"+path, "Rows.Close: %v", cerr)
				return out
			}
			pos += n
		}
		if pos != len(model) {
			out.Violation = core.Violate("C01/num-rows", "row groups hold %d rows, %d were written", pos, len(model))
		}
	case "multi":
		rows := parquet.MultiRowGroup(f.RowGroups()...).Rows()
		rc := &rowCursor{prop: "C01", path: path, model: model}
		out.Violation = readAllRows(rows, rc, b, c)
		rows.Close()
	case "reader":
		r := parquet.NewReader(sf)
		rc := &rowCursor{prop: "C01", path: path, model: model}
		out.Violation = readAllRows(r, rc, b, c)
		r.Close()
	case "typed":
		r := sh.NewReader(sf)
		pos := 0
		for stalls := 0; ; {
			n := b.next()
			vals, rows, err := r.Read(n)
			c.Step()
			c.Event("typed read %d -> %d %v", n, len(vals), err)
			if v := c01CheckTyped(sh, res.Data, model, pos, vals, rows); v != nil {
				out.Violation = v
				break
			}
			pos += len(vals)
			if err != nil {
				if errors.Is(err, io.EOF) {
					if pos != len(model) {
						out.Violation = core.Violate("C01/early-eof/typed", "io.EOF after %d of %d rows", pos, len(model))
					}
				} else {
					out.Violation = core.Violate("C01/read-error/typed", "after %d rows: %v", pos, err)
				}
				break
			}
			if len(vals) == 0 {
				if stalls++; stalls >= 8 {
					out.Violation = core.Violate("C01/no-progress/typed", "8 consecutive Read calls returned (0, nil) at row %d", pos)
					break
				}
			} else {
				stalls = 0
			}
		}
		r.Close()
	case "readall":
		vals, rows, err := sh.ReadAll(sf, sf.Size())
		c.Event("readall -> %d %v", len(vals), err)
		if err != nil {
			out.Violation = core.Violate("C01/read-error/readall", "%v", err)
		} else if len(vals) != len(model) {
			out.Violation = core.Violate("C01/num-rows/readall", "Read returned %d rows, %d were written", len(vals), len(model))
		} else {
			out.Violation = c01CheckTyped(sh, res.Data, model, 0, vals, rows)
		}
	}
	return out
}

func c01CheckTyped(sh gen.Shape, data gen.Data, model []parquet.Row, pos int, vals []any, rows []parquet.Row) *core.Violation {
	for i := range vals {
		if pos+i >= len(model) {
			return core.Violate("C01/extra-rows/typed", "reader delivered more than the %d rows written", len(model))
		}
		if !sh.EqualValues(data.Value(pos+i), vals[i]) {
			return core.Violate("C01/value-differs/typed", "row %d: got %+v, want %+v", pos+i, trunc(fmt.Sprintf("%+v", vals[i])), trunc(fmt.Sprintf("%+v", data.Value(pos+i))))
		}
		if !sh.HasMap() {
			if d := gen.RowDiff(model[pos+i], rows[i]); d != "" {
				return core.Violate("C01/row-differs/typed", "row %d: %s", pos+i, d)
			}
		}
	}
	return nil
}

func trunc(s string) string {
	if len(s) > 300 {
		return s[:300] + "…"
	}
	return s
}

// c01FallbackProbe counts chunks whose dictionary fell back to PLAIN.
func c01FallbackProbe(f *parquet.File, c *core.Ctx) {
	md := f.Metadata()
	for _, rg := range md.RowGroups {
		for _, col := range rg.Columns {
			dict, plain := false, false
			for _, es := range col.MetaData.EncodingStats {
				if es.PageType == 0 { // data page
					switch es.Encoding.String() {
					case "RLE_DICTIONARY", "PLAIN_DICTIONARY":
						dict = true
					case "PLAIN":
						plain = true
					}
				}
			}
			if dict && plain {
				c.Probe("dictionary-fallback-mid-chunk")
				return
			}
		}
	}
}
