package props

import (
	"bytes"
	"errors"
	"fmt"
	"github.com/parquet-go/parquet-go/encoding/thrift"
	"io"
	"sort"
	"strings"

	"github.com/parquet-go/parquet-go"
	"github.com/parquet-go/parquet-go/format"

	"pqsim/core"
	"pqsim/env"
	"pqsim/gen"
	"pqsim/tape"
)

// C11 — WriteRowGroup copy / pack / re-encode fast paths are indistinguishable
// from the row path (E1 differential: same scenario with the fast paths on and
// forced off through H3).

type C11Scenario struct {
	Source     string        `json:"source"` // file | multi | buffer | merged | convert | dedupe | foreign
	Shape      string        `json:"shape"`
	Profile    int           `json:"profile"`
	RowSeed    uint64        `json:"row_seed"`
	NRows      int           `json:"n_rows"`
	SrcW       gen.WOpts     `json:"src_w"`
	DstW       gen.WOpts     `json:"dst_w"`
	SameOpts   bool          `json:"same_opts"`
	Parts      int           `json:"parts"`   // merged/dedupe: number of inputs
	Overlap    bool          `json:"overlap"` // merged: inputs interleave instead of being disjoint
	BufferKind string        `json:"buffer_kind,omitempty"`
	Sorted     bool          `json:"sorted,omitempty"`
	PreRows    int           `json:"pre_rows"` // rows written through the row API before WriteRowGroup
	Pools      PoolPolicy    `json:"pools"`
	Sink       env.SinkFaces `json:"sink"`
}

type C11 struct{}

func (C11) ID() string { return "C11" }

func (C11) Info() core.Info {
	return core.Info{
		Level: "exploration",
		Rule: "one run = one seeded source row group (file row groups written with independently drawn options - equal to the destination's in half of the runs so the verbatim copy fires -, MultiRowGroup, in-memory buffers sorted or not, merges of disjoint or overlapping sorted files, ConvertRowGroup, dedup merge, and a foreign RowGroup whose Rows() filters rows while its ColumnChunks() expose the unfiltered source) written through WriteRowGroup into a destination with seeded options, optionally after rows buffered through the row API; executed twice: fast paths enabled, and forced onto the row path (H3 switches). " +
			"Oracle: both outputs read back exactly the rows of source.Rows(); per column the fast output has the same codec, encodings, page type, bloom-filter presence (and no false negative), page-index presence and sorting metadata as the row-path output; every row group <= MaxRowsPerRowGroup; every page of the offset index starts at its row; semantic wrappers never increase the copy/re-encode counters. distinct = distinct (source kind, options, path taken) signatures; non-trivial = a fast path actually ran (counters) or a semantic wrapper was exercised",
		Real:   []string{"parquet-go Writer.WriteRowGroup (copy, packed, re-encode and row paths), merge/convert/dedupe wrappers, reader (all real code from /repo)"},
		Stubs:  []string{"destination io.Writer (SimSink)", "source io.ReaderAt (SimFile)", "page BufferPool (SimBufferPool)", "internal/memory.Pool (deterministic H1/H2)", "a foreign RowGroup implementation defined in the harness"},
		Assume: []string{"expected rows are what source.Rows() delivers (the wrapper's own semantics are C09/C12's subject)", "page boundaries and row-group partitioning may differ between the two executions"},
	}
}

func (C11) Budget(tier string) core.Budget {
	if tier == "thorough" {
		return core.Budget{Runs: 30000, MaxWall: 20 * 60e9}
	}
	return core.Budget{Runs: 2000, MaxWall: 50e9}
}

func (C11) New() any { return &C11Scenario{} }

func (C11) Gen(t *tape.Tape, tier string) any {
	sc := &C11Scenario{}
	shapes := []gen.Shape{gen.ShapeFlat, gen.ShapeNested, gen.ShapeLogical, gen.ShapeDyn, gen.ShapeGen}
	sh := gen.Resolve(t, shapes[t.Draw(len(shapes))])
	sc.Shape = sh.Name()
	sc.Source = []string{"file", "multi", "buffer", "merged", "convert", "dedupe", "foreign"}[t.Weighted(5, 2, 3, 4, 1, 2, 2)]
	sc.Profile = t.Draw(3)
	sc.RowSeed = t.Seed()
	sc.NRows = genRowCount(t, 1200)
	if sc.NRows == 0 {
		sc.NRows = 1 + t.Draw(20)
	}
	sc.DstW = gen.GenWOpts(t, sh)
	sc.DstW.WriteBufferSize = -1
	if t.Chance(1, 3) {
		gen.GenBloom(t, sh, &sc.DstW)
	}
	sc.SameOpts = t.Bool()
	if sc.SameOpts {
		sc.SrcW = sc.DstW
		sc.SrcW.MaxRowsPerGroup = []int64{0, 50, 333}[t.Draw(3)]
		if t.Chance(1, 4) {
			// same layout, other statistics settings: the page index of a source
			// written without limit against a destination that asks for short bounds
			sc.SrcW.IndexSizeLimit = 0
			sc.DstW.IndexSizeLimit = []int{1, 2, 4}[t.Draw(3)]
		}
		if t.Chance(1, 4) {
			// page bounds skipped for one column by the destination only
			paths := gen.LeafPaths(sh.Schema())
			sc.DstW.SkipPageBounds = [][]string{paths[t.Draw(len(paths))]}
		}
		if len(sc.DstW.Bloom) > 0 && t.Chance(1, 3) {
			// the same filters, stored compressed by one side only
			sc.SrcW.BloomGzip, sc.DstW.BloomGzip = false, true
			if t.Bool() {
				sc.SrcW.BloomGzip, sc.DstW.BloomGzip = true, false
			}
		}
	} else {
		sc.SrcW = gen.GenWOpts(t, sh)
		if t.Chance(1, 3) {
			gen.GenBloom(t, sh, &sc.SrcW)
		}
	}
	sc.Parts = t.Range(2, 4)
	sc.Overlap = t.Bool()
	sc.BufferKind = gen.BufferKinds[t.Draw(len(gen.BufferKinds))]
	sc.Sorted = t.Bool()
	if t.Chance(1, 3) {
		sc.PreRows = t.Range(1, 30)
	}
	sc.Pools = GenPoolPolicy(t)
	sc.Sink = env.SinkFaces{ReaderFrom: t.Chance(1, 3), StringWriter: t.Chance(1, 3)}
	return sc
}

// foreignRowGroup keeps every other row in Rows() while exposing the
// unfiltered column chunks of its base: a writer that reads the chunks
// directly bypasses its semantics.
type foreignRowGroup struct {
	base parquet.RowGroup
	keep []parquet.Row
}

func (g *foreignRowGroup) NumRows() int64                          { return int64(len(g.keep)) }
func (g *foreignRowGroup) ColumnChunks() []parquet.ColumnChunk     { return g.base.ColumnChunks() }
func (g *foreignRowGroup) Schema() *parquet.Schema                 { return g.base.Schema() }
func (g *foreignRowGroup) SortingColumns() []parquet.SortingColumn { return nil }
func (g *foreignRowGroup) Rows() parquet.Rows {
	return &sliceRows{rows: g.keep, schema: g.base.Schema()}
}

type sliceRows struct {
	rows   []parquet.Row
	pos    int
	schema *parquet.Schema
}

func (r *sliceRows) ReadRows(buf []parquet.Row) (int, error) {
	n := 0
	for n < len(buf) && r.pos < len(r.rows) {
		buf[n] = append(buf[n][:0], r.rows[r.pos]...)
		n++
		r.pos++
	}
	if r.pos >= len(r.rows) {
		return n, io.EOF
	}
	return n, nil
}
func (r *sliceRows) SeekToRow(i int64) error { r.pos = int(i); return nil }
func (r *sliceRows) Close() error            { return nil }
func (r *sliceRows) Schema() *parquet.Schema { return r.schema }

// chunkMeta summarises what the destination options decide for one column.
type chunkMeta struct {
	Codec     string
	Encodings string
	PageTypes string
	Bloom     bool
	BloomKind string // compression declared by the bloom filter header
	Bounds    bool   // some page of the column index carries a non-empty bound
	ColIndex  bool
	OffIndex  bool
}

type c11Output struct {
	bytes   []byte
	rows    []parquet.Row
	meta    map[int]map[chunkMeta]bool // column -> set of metas over row groups
	sorting string
	copied  int64
	reenc   int64
	maxRG   int64
}

func (C11) Run(s any, c *core.Ctx) core.Outcome {
	sc := s.(*C11Scenario)
	out := core.Outcome{}
	sh := gen.ShapeByName(sc.Shape)
	data := sh.Make(sc.RowSeed, sc.NRows, gen.Profile(sc.Profile))
	pre := sh.Make(sc.RowSeed+1, sc.PreRows, gen.Profile(sc.Profile))

	fast, expected, v := c11Execute(c, sc, sh, data, pre, false)
	if v != nil {
		out.Violation = v
		return out
	}
	slow, expected2, v := c11Execute(c, sc, sh, data, pre, true)
	if v != nil {
		v.Class += "/row-path"
		out.Violation = v
		return out
	}
	if len(expected) != len(expected2) {
		out.Violation = core.Violate("C11/harness/source-not-repeatable", "source.Rows() gave %d then %d rows", len(expected), len(expected2))
		return out
	}
	semantic := sc.Source == "convert" || sc.Source == "dedupe" || sc.Source == "foreign"
	check := func(o *c11Output, which string) *core.Violation {
		if len(o.rows) != len(expected) {
			return core.Violate("C11/row-count/"+sc.Source+"/"+which, "output has %d rows, source.Rows() delivered %d", len(o.rows), len(expected))
		}
		for i := range expected {
			if d := gen.RowDiff(expected[i], o.rows[i]); d != "" {
				return core.Violate("C11/rows-differ/"+sc.Source+"/"+which, "row %d: %s", i, d)
			}
		}
		return nil
	}
	if v := check(fast, "fast"); v != nil {
		out.Violation = v
		return out
	}
	if v := check(slow, "row"); v != nil {
		out.Violation = v
		return out
	}
	if slow.copied != 0 || slow.reenc != 0 {
		out.Violation = core.Violate("C11/harness/switches-ineffective", "fast paths ran although disabled: copied=%d reencoded=%d", slow.copied, slow.reenc)
		return out
	}
	if semantic && (fast.copied != 0 || fast.reenc != 0) {
		out.Violation = core.Violate("C11/wrapper-bypassed/"+sc.Source, "a row group whose Rows() changes semantics was written through a chunk-level fast path (copied chunks=%d, re-encoded row groups=%d)", fast.copied, fast.reenc)
		return out
	}
	if mr := sc.DstW.MaxRowsPerGroup; mr > 0 && fast.maxRG > mr {
		out.Violation = core.Violate("C11/max-rows-per-row-group/"+sc.Source, "a row group of %d rows exceeds MaxRowsPerRowGroup(%d)", fast.maxRG, mr)
		return out
	}
	// per column, the option-determined metadata must agree with the row path
	for col, want := range slow.meta {
		got := fast.meta[col]
		for m := range got {
			if !want[m] {
				out.Violation = core.Violate("C11/options-not-honoured/"+sc.Source, "column %d: fast path wrote a chunk with %+v; the row path only writes %v", col, m, keysOf(want))
				return out
			}
		}
	}
	if fast.sorting != slow.sorting {
		out.Violation = core.Violate("C11/sorting-metadata/"+sc.Source, "fast path declares sorting %q, row path %q", fast.sorting, slow.sorting)
		return out
	}
	if fast.copied > 0 {
		c.Probe("verbatim-copy")
	}
	if fast.reenc > 0 {
		c.Probe("column-reencode")
	}
	path := "row"
	switch {
	case fast.copied > 0 && fast.reenc > 0:
		path = "copy+reencode"
	case fast.copied > 0:
		path = "copy"
	case fast.reenc > 0:
		path = "reencode"
	}
	out.Nontrivial = fast.copied > 0 || fast.reenc > 0 || semantic
	out.Sig = fmt.Sprintf("%s|%s|%s|%s|%v|%s", sc.Source, sc.Shape, sc.DstW.Sig(), sc.SrcW.Sig(), sc.PreRows > 0, path)
	out.Sample = map[string]any{"source": sc.Source, "shape": sc.Shape, "rows": len(expected), "path": path, "same_opts": sc.SameOpts, "dst": sc.DstW.Sig()}
	return out
}

func keysOf(m map[chunkMeta]bool) []chunkMeta {
	var out []chunkMeta
	for k := range m {
		out = append(out, k)
	}
	return out
}

// c11Execute builds the source, drains source.Rows() (the expectation),
// writes it through WriteRowGroup and reads the output back.
func c11Execute(c *core.Ctx, sc *C11Scenario, sh gen.Shape, data, pre gen.Data, rowPath bool) (*c11Output, []parquet.Row, *core.Violation) {
	sc.Pools.Install()
	parquet.VerifDisableWriteCopy(rowPath)
	parquet.VerifDisableWriteReencode(rowPath)
	defer parquet.VerifDisableWriteCopy(false)
	defer parquet.VerifDisableWriteReencode(false)

	writeFile := func(d gen.Data, lo, hi int, w gen.WOpts, sortCol bool) (*parquet.File, *core.Violation) {
		e := &gen.Env{Ctx: c}
		ww := w
		if sortCol {
			ww.Sorting = []gen.SortCol{{Path: []string{"id"}}}
		}
		sink, face := env.NewSink(c, env.SinkFaces{}, nil)
		wr := sh.NewWriter(gen.WGeneric, face, ww.Options(e)...)
		if hi > lo {
			if _, err := wr.Write(d, lo, hi); err != nil {
				return nil, core.Violate("C11/source-write-error", "%v", err)
			}
		}
		if err := wr.Close(); err != nil {
			return nil, core.Violate("C11/source-write-error", "%v", err)
		}
		sf := env.NewFile(c, sink.Bytes())
		f, err := parquet.OpenFile(sf, sf.Size())
		if err != nil {
			return nil, core.Violate("C11/source-open-error", "%v", err)
		}
		return f, nil
	}

	var sources []parquet.RowGroup
	var fileRowGroups []parquet.RowGroup // file-backed row groups behind the sources
	dstSchema := sh.Schema()
	switch sc.Source {
	case "file", "multi", "convert", "foreign":
		f, v := writeFile(data, 0, data.Len(), sc.SrcW, false)
		if v != nil {
			return nil, nil, v
		}
		rgs := f.RowGroups()
		fileRowGroups = rgs
		switch sc.Source {
		case "file":
			sources = rgs
		case "multi":
			sources = []parquet.RowGroup{parquet.MultiRowGroup(rgs...)}
		case "convert":
			// drop the last top-level field
			fields := sh.Schema().Fields()
			g := parquet.Group{}
			for _, fld := range fields[:len(fields)-1] {
				g[fld.Name()] = fld
			}
			dstSchema = parquet.NewSchema(sh.Schema().Name(), g)
			conv, err := parquet.Convert(dstSchema, sh.Schema())
			if err != nil {
				return nil, nil, core.Violate("C11/harness/convert", "%v", err)
			}
			for _, rg := range rgs {
				sources = append(sources, parquet.ConvertRowGroup(rg, conv))
			}
		case "foreign":
			for _, rg := range rgs {
				all, v := drainRows(rg.Rows())
				if v != nil {
					return nil, nil, v
				}
				var keep []parquet.Row
				for i, r := range all {
					if i%2 == 0 {
						keep = append(keep, r)
					}
				}
				sources = append(sources, &foreignRowGroup{base: rg, keep: keep})
			}
		}
	case "buffer":
		var opts []parquet.RowGroupOption
		if sc.Sorted {
			opts = append(opts, parquet.SortingRowGroupConfig(parquet.SortingColumns(parquet.Descending("id"))))
		}
		buf := sh.NewBuffer(sc.BufferKind, opts...)
		if _, err := buf.Write(data, 0, data.Len()); err != nil {
			return nil, nil, core.Violate("C11/source-write-error", "%v", err)
		}
		if sc.Sorted {
			sort.Sort(buf)
		}
		sources = []parquet.RowGroup{buf}
	case "merged", "dedupe":
		// parts sorted by id (ids are 0..n-1 in generation order): disjoint ranges or interleaved
		n := data.Len()
		var parts []parquet.RowGroup
		for p := 0; p < sc.Parts; p++ {
			var f *parquet.File
			var v *core.Violation
			if sc.Source == "dedupe" {
				// consecutive parts share a range of ids: duplicates across inputs
				lo, hi := p*n/(sc.Parts+1), (p+2)*n/(sc.Parts+1)
				f, v = writeFile(data, lo, hi, sc.SrcW, true)
			} else if sc.Overlap {
				// interleaved ids: part p gets rows p, p+k, ... -> write them via a sub-dataset
				idx := []int{}
				for i := p; i < n; i += sc.Parts {
					idx = append(idx, i)
				}
				f, v = writeSubset(c, sh, data, idx, sc.SrcW)
			} else {
				lo, hi := p*n/sc.Parts, (p+1)*n/sc.Parts
				ww := sc.SrcW
				ww.Sorting = []gen.SortCol{{Path: []string{"id"}}}
				f, v = writeFile(data, lo, hi, ww, true)
			}
			if v != nil {
				return nil, nil, v
			}
			parts = append(parts, f.RowGroups()...)
		}
		var so []parquet.SortingOption
		so = append(so, parquet.SortingColumns(parquet.Ascending("id")))
		if sc.Source == "dedupe" {
			so = append(so, parquet.DropDuplicatedRows(true))
		}
		m, err := parquet.MergeRowGroups(parts, parquet.SortingRowGroupConfig(so...))
		if err != nil {
			return nil, nil, core.Violate("C11/merge-error", "%v", err)
		}
		sources = []parquet.RowGroup{m}
		dstSchema = m.Schema()
	}

	// expectation: the rows of source.Rows(), after the rows written through the row API
	var expected []parquet.Row
	if dstSchema == sh.Schema() {
		expected = append(expected, gen.CloneRows(pre.Rows())...)
	}
	for _, src := range sources {
		rows, v := drainRows(src.Rows())
		if v != nil {
			return nil, nil, v
		}
		expected = append(expected, rows...)
	}

	e := &gen.Env{Ctx: c}
	sink, face := env.NewSink(c, sc.Sink, nil)
	opts := append([]parquet.WriterOption{dstSchema}, sc.DstW.Options(e)...)
	w := parquet.NewWriter(face, opts...)
	c0, r0 := parquet.VerifCopyPathCount(), parquet.VerifReencodePathCount()
	if dstSchema == sh.Schema() && pre.Len() > 0 {
		if _, err := w.WriteRows(gen.CloneRows(pre.Rows())); err != nil {
			return nil, nil, core.Violate("C11/write-error/pre-rows", "%v", err)
		}
	}
	indexBefore := c11IndexBounds(fileRowGroups)
	for i, src := range sources {
		if src.NumRows() == 0 && sc.Source != "foreign" {
			continue
		}
		if _, err := w.WriteRowGroup(src); err != nil {
			return nil, nil, core.Violate("C11/write-row-group-error/"+sc.Source, "source %d: %v", i, err)
		}
		c.Step()
	}
	if err := w.Close(); err != nil {
		return nil, nil, core.Violate("C11/write-error/close", "%v", err)
	}
	// an application goes on with the writer (Reset for the next file) and with the
	// source: the page index of the source must still say what it said
	_, nextFace := env.NewSink(c, env.SinkFaces{}, nil)
	w.Reset(nextFace)
	if after := c11IndexBounds(fileRowGroups); after != indexBefore {
		return nil, nil, core.Violate("C11/source-damaged/"+sc.Source, "the column index bounds of the source row groups changed after WriteRowGroup, Close and Writer.Reset (first difference at byte %d of the rendering)", firstDiff([]byte(indexBefore), []byte(after)))
	}
	// the sources must come out of WriteRowGroup as they went in: file-backed row
	// groups still read and seek as before (the row path only reads them)
	if sc.Source == "file" || sc.Source == "multi" {
		for si, src := range sources {
			rows, v := drainRows(src.Rows())
			if v != nil {
				v.Class = "C11/source-damaged/" + sc.Source
				v.Detail = fmt.Sprintf("source %d no longer reads after WriteRowGroup: %s", si, v.Detail)
				return nil, nil, v
			}
			if int64(len(rows)) != src.NumRows() {
				return nil, nil, core.Violate("C11/source-damaged/"+sc.Source, "source %d delivers %d of %d rows after WriteRowGroup", si, len(rows), src.NumRows())
			}
			if sc.Source == "file" {
				if v := c11PageStarts(src, rows, sc.Source); v != nil {
					v.Class = "C11/source-damaged/" + sc.Source
					v.Detail = fmt.Sprintf("source %d after WriteRowGroup: %s", si, v.Detail)
					return nil, nil, v
				}
			}
		}
	}
	o := &c11Output{bytes: sink.Bytes(), meta: map[int]map[chunkMeta]bool{}}
	nonNull := map[[2]int]int{}
	hasBounds := map[[2]int]bool{}
	needsBounds := map[[2]int]bool{} // the chunk holds a value whose bound is not the empty string
	o.copied = parquet.VerifCopyPathCount() - c0
	o.reenc = parquet.VerifReencodePathCount() - r0

	sf := env.NewFile(c, o.bytes)
	f, err := parquet.OpenFile(sf, sf.Size())
	if err != nil {
		return nil, nil, core.Violate("C11/output-open-error/"+sc.Source, "%v", err)
	}
	for gi, rg := range f.RowGroups() {
		rows, v := drainRows(rg.Rows())
		if v != nil {
			v.Class = "C11/output-unreadable/" + sc.Source
			v.Detail = fmt.Sprintf("row group %d: %s", gi, v.Detail)
			return nil, nil, v
		}
		if int64(len(rows)) != rg.NumRows() {
			return nil, nil, core.Violate("C11/output-row-count/"+sc.Source, "row group %d delivers %d rows, metadata says %d", gi, len(rows), rg.NumRows())
		}
		o.rows = append(o.rows, rows...)
		if rg.NumRows() > o.maxRG {
			o.maxRG = rg.NumRows()
		}
		// every page listed in the offset index starts at its row
		if v := c11PageStarts(rg, rows, sc.Source); v != nil {
			return nil, nil, v
		}
		for ci := range rg.ColumnChunks() {
			// raw bytes of the index: an empty bound has no value to decode
			if k := gi*len(rg.ColumnChunks()) + ci; k < len(f.ColumnIndexes()) {
				ix := f.ColumnIndexes()[k]
				for p := range ix.MinValues {
					if len(ix.MinValues[p]) > 0 || (p < len(ix.MaxValues) && len(ix.MaxValues[p]) > 0) {
						hasBounds[[2]int{gi, ci}] = true
					}
				}
			}
		}
		// bloom filters: no false negative
		for ci, cc := range rg.ColumnChunks() {
			for _, val := range columnValues(rows, ci) {
				if !val.IsNull() {
					nonNull[[2]int{gi, ci}]++
					if len(val.Bytes()) > 0 {
						needsBounds[[2]int{gi, ci}] = true
					}
				}
			}
			if bf := cc.BloomFilter(); bf != nil {
				distinct := map[string]bool{}
				for _, val := range columnValues(rows, ci) {
					if val.IsNull() {
						continue
					}
					ok, err := bf.Check(val)
					if err != nil || !ok {
						return nil, nil, core.Violate("C11/bloom-false-negative/"+sc.Source, "row group %d column %d: value %s: ok=%v err=%v", gi, ci, gen.FmtValue(val), ok, err)
					}
					distinct[string(val.Bytes())] = true
				}
				// the bits-per-value setting: a filter holding n distinct values is at
				// least what the configuration prescribes for n values (both paths size
				// it for the dictionary length or for the value count of the chunk)
				if v := bloomUndersized("C11", bloomSpecs(sc.DstW), f.Schema().Columns()[ci], len(distinct), bf.Size()); v != nil {
					v.Class += "/" + sc.Source
					v.Detail = fmt.Sprintf("row group %d column %d: %s", gi, ci, v.Detail)
					return nil, nil, v
				}
			}
		}
	}
	// ColumnIndexSizeLimit of the destination: no byte array bound of the page index is
	// longer (a max value whose kept prefix is all 0xFF cannot be shortened and stays whole)
	if lim := sc.DstW.IndexSizeLimit; lim > 0 {
		for gi, rg := range f.RowGroups() {
			for ci, cc := range rg.ColumnChunks() {
				if cc.Type().Kind() != parquet.ByteArray {
					continue
				}
				ix, err := cc.ColumnIndex()
				if err != nil || ix == nil {
					continue
				}
				for p := 0; p < ix.NumPages(); p++ {
					if ix.NullPage(p) {
						continue
					}
					for which, b := range [][]byte{ix.MinValue(p).Bytes(), ix.MaxValue(p).Bytes()} {
						if len(b) <= lim || (which == 1 && allFF(b[:lim])) {
							continue
						}
						path := "fast"
						if rowPath {
							path = "row"
						}
						return nil, nil, core.Violate("C11/index-size-limit-not-honoured/"+sc.Source+"/"+path, "row group %d column %d page %d: a bound of %d bytes in the column index, ColumnIndexSizeLimit is %d", gi, ci, p, len(b), lim)
					}
				}
			}
		}
	}
	md := f.Metadata()
	pages, _, lerr := fileLayout(o.bytes)
	if lerr != nil {
		return nil, nil, core.Violate("C11/output-layout/"+sc.Source, "%v", lerr)
	}
	ptypes := map[[2]int]map[string]bool{}
	for _, p := range pages {
		k := [2]int{p.RowGroup, p.Column}
		if ptypes[k] == nil {
			ptypes[k] = map[string]bool{}
		}
		if !p.Dict {
			ptypes[k][p.Type] = true
		}
	}
	for gi, rg := range md.RowGroups {
		sorting := fmt.Sprint(rg.SortingColumns)
		if gi == 0 {
			o.sorting = sorting
		} else if sorting != o.sorting {
			o.sorting = "mixed"
		}
		for ci, col := range rg.Columns {
			m := col.MetaData
			if m.NumValues == 0 || nonNull[[2]int{gi, ci}] == 0 {
				// a chunk without a single value says nothing about the options: a
				// dictionary column holding only nulls gets no bloom filter from either
				// path, and the two paths cut row groups at different rows
				continue
			}
			encs := map[string]bool{}
			for _, es := range m.EncodingStats {
				if es.PageType == format.DataPage || es.PageType == format.DataPageV2 {
					name := es.Encoding.String()
					if sc.DstW.DictMaxBytes > 0 && (name == "PLAIN" || name == "RLE_DICTIONARY" || name == "PLAIN_DICTIONARY") {
						// where a dictionary falls back to PLAIN depends on page and
						// row-group boundaries, which the two paths may choose differently
						name = "DICTIONARY-OR-PLAIN"
					}
					encs[name] = true
				}
			}
			cm := chunkMeta{Codec: m.Codec.String(), Encodings: setString(encs), PageTypes: setString(ptypes[[2]int{gi, ci}]),
				Bloom: m.BloomFilterOffset != 0, BloomKind: bloomHeaderKind(o.bytes, m.BloomFilterOffset), Bounds: hasBounds[[2]int{gi, ci}] || !needsBounds[[2]int{gi, ci}], ColIndex: col.ColumnIndexOffset != 0, OffIndex: col.OffsetIndexOffset != 0}
			if o.meta[ci] == nil {
				o.meta[ci] = map[chunkMeta]bool{}
			}
			o.meta[ci][cm] = true
		}
	}
	return o, expected, nil
}

func setString(m map[string]bool) string {
	var ks []string
	for k := range m {
		ks = append(ks, k)
	}
	sort.Strings(ks)
	return fmt.Sprint(ks)
}

func drainRows(r parquet.Rows) ([]parquet.Row, *core.Violation) {
	defer r.Close()
	var out []parquet.Row
	buf := make([]parquet.Row, 64)
	stalls := 0
	for {
		n, err := r.ReadRows(buf)
		for i := 0; i < n; i++ {
			out = append(out, buf[i].Clone())
		}
		if err != nil {
			if errors.Is(err, io.EOF) {
				return out, nil
			}
			return out, core.Violate("C11/read-error", "after %d rows: %v", len(out), err)
		}
		if n == 0 {
			if stalls++; stalls > 8 {
				return out, core.Violate("C11/no-progress", "reader made no progress at row %d", len(out))
			}
		} else {
			stalls = 0
		}
	}
}

// writeSubset writes the rows data[idx...] (already in ascending id order) as a sorted file.
func writeSubset(c *core.Ctx, sh gen.Shape, data gen.Data, idx []int, w gen.WOpts) (*parquet.File, *core.Violation) {
	e := &gen.Env{Ctx: c}
	ww := w
	ww.Sorting = []gen.SortCol{{Path: []string{"id"}}}
	sink, face := env.NewSink(c, env.SinkFaces{}, nil)
	wr := sh.NewWriter(gen.WGeneric, face, ww.Options(e)...)
	rows := make([]parquet.Row, 0, len(idx))
	for _, i := range idx {
		rows = append(rows, data.Rows()[i].Clone())
	}
	if len(rows) > 0 {
		if _, err := wr.WriteRows(rows); err != nil {
			return nil, core.Violate("C11/source-write-error", "%v", err)
		}
	}
	if err := wr.Close(); err != nil {
		return nil, core.Violate("C11/source-write-error", "%v", err)
	}
	sf := env.NewFile(c, sink.Bytes())
	f, err := parquet.OpenFile(sf, sf.Size())
	if err != nil {
		return nil, core.Violate("C11/source-open-error", "%v", err)
	}
	return f, nil
}

// c11PageStarts seeks to the first row of (a sample of) the pages listed in
// each offset index and checks the page starts with that row's values.
func c11PageStarts(rg parquet.RowGroup, rows []parquet.Row, source string) *core.Violation {
	for ci, cc := range rg.ColumnChunks() {
		oi, err := cc.OffsetIndex()
		if err != nil || oi == nil || oi.NumPages() < 2 {
			continue
		}
		step := oi.NumPages()/6 + 1
		pages := cc.Pages()
		for pi := 1; pi < oi.NumPages(); pi += step {
			first := oi.FirstRowIndex(pi)
			if first < 0 || int(first) >= len(rows) {
				pages.Close()
				return core.Violate("C11/offset-index/"+source, "column %d page %d: first_row_index %d outside the %d rows", ci, pi, first, len(rows))
			}
			if err := pages.SeekToRow(first); err != nil {
				pages.Close()
				return core.Violate("C11/offset-index/"+source, "column %d: SeekToRow(%d): %v", ci, first, err)
			}
			p, err := pages.ReadPage()
			if err != nil {
				pages.Close()
				return core.Violate("C11/offset-index/"+source, "column %d: ReadPage after SeekToRow(%d): %v", ci, first, err)
			}
			want := columnValues(rows[first:first+1], ci)
			got := make([]parquet.Value, len(want))
			n, _ := p.Values().ReadValues(got)
			ok := n == len(want)
			for i := 0; ok && i < n; i++ {
				ok = gen.ValueEqual(want[i], got[i])
			}
			parquet.Release(p)
			if !ok {
				pages.Close()
				return core.Violate("C11/page-not-on-row-boundary/"+source, "column %d: the page the offset index lists for row %d does not start with that row's values", ci, first)
			}
		}
		pages.Close()
	}
	return nil
}

// c11IndexBounds renders the page bounds of the column indexes of file-backed row groups.
func c11IndexBounds(rgs []parquet.RowGroup) string {
	var b strings.Builder
	for gi, rg := range rgs {
		for ci, cc := range rg.ColumnChunks() {
			ix, err := cc.ColumnIndex()
			if err != nil || ix == nil {
				continue
			}
			fmt.Fprintf(&b, "%d/%d:", gi, ci)
			for p := 0; p < ix.NumPages(); p++ {
				if ix.NullPage(p) {
					b.WriteString(" null")
					continue
				}
				b.WriteString(" ")
				b.WriteString(boundString(ix, p))
			}
			b.WriteString("\n")
		}
	}
	return b.String()
}

func boundString(ix parquet.ColumnIndex, p int) (s string) {
	defer func() {
		if r := recover(); r != nil {
			s = fmt.Sprintf("<panic %v>", r)
		}
	}()
	return fmt.Sprintf("%x..%x", ix.MinValue(p).Bytes(), ix.MaxValue(p).Bytes())
}

// bloomUndersized checks a filter's size against the configured bits per value.
func bloomUndersized(prop string, specs []gen.BloomSpec, path []string, distinct int, size int64) *core.Violation {
	for _, b := range specs {
		if fmt.Sprint(b.Path) != fmt.Sprint(path) {
			continue
		}
		if want := int64(parquet.SplitBlockFilter(b.Bits, path...).Size(int64(distinct))); size < want {
			return core.Violate(prop+"/bloom-filter-undersized", "the filter has %d bytes for %d distinct values; %d bits per value prescribe at least %d bytes", size, distinct, b.Bits, want)
		}
	}
	return nil
}

// bloomSpecs returns the filters whose stored size is the size of the bit set
// (a compressed filter reports its compressed length).
func bloomSpecs(w gen.WOpts) []gen.BloomSpec {
	if w.BloomGzip {
		return nil
	}
	return w.Bloom
}

// bloomHeaderKind decodes the bloom filter header at off and names its compression.
func bloomHeaderKind(file []byte, off int64) string {
	if off <= 0 || off >= int64(len(file)) {
		return ""
	}
	var h format.BloomFilterHeader
	proto := thrift.CompactProtocol{}
	if err := thrift.NewDecoder(proto.NewReader(bytes.NewReader(file[off:]))).Decode(&h); err != nil {
		return "undecodable"
	}
	return fmt.Sprintf("%T", h.Compression.Value)
}

func allFF(b []byte) bool {
	for _, x := range b {
		if x != 0xFF {
			return false
		}
	}
	return true
}
