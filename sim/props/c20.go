package props

import (
	"bytes"
	"fmt"

	"github.com/parquet-go/parquet-go"
	"github.com/parquet-go/parquet-go/compress"
	"github.com/parquet-go/parquet-go/compress/brotli"
	"github.com/parquet-go/parquet-go/compress/gzip"
	"github.com/parquet-go/parquet-go/compress/lz4"
	"github.com/parquet-go/parquet-go/compress/zstd"

	"pqsim/core"
	"pqsim/tape"
)

// C20 — compression codecs are lossless whatever was compressed before
// (history on the shared codec values and their pooled readers/writers; the
// concurrent part runs under the E3 scheduler, see c20sched.go).

type CodecOp struct {
	Op      string `json:"op"` // roundtrip | baddecode
	XKind   string `json:"x_kind"`
	XLen    int    `json:"x_len"`
	XSeed   uint64 `json:"x_seed"`
	EncDst  string `json:"enc_dst"`
	DecDst  string `json:"dec_dst"`
	Corrupt string `json:"corrupt,omitempty"` // flip | truncate | garbage
}

type C20Scenario struct {
	Codec     string     `json:"codec"`
	Ops       []CodecOp  `json:"ops"`
	Pools     PoolPolicy `json:"pools"`
	Tasks     int        `json:"tasks,omitempty"` // > 1: concurrent tasks under the scheduler
	Sched     []int      `json:"sched,omitempty"` // scheduler decisions (recorded)
	SchedSeed uint64     `json:"sched_seed,omitempty"`
}

func (s *C20Scenario) SchedPtr() *[]int { return &s.Sched }

var c20Codecs = map[string]compress.Codec{
	"uncompressed": &parquet.Uncompressed,
	"snappy":       &parquet.Snappy,
	"gzip":         &parquet.Gzip,
	"brotli":       &parquet.Brotli,
	"zstd":         &parquet.Zstd,
	"lz4":          &parquet.Lz4Raw,
	"gzip-1":       &gzip.Codec{Level: 1},
	"gzip-9":       &gzip.Codec{Level: 9},
	"brotli-1":     &brotli.Codec{Quality: 1, LGWin: brotli.DefaultLGWin},
	"zstd-fastest": &zstd.Codec{Level: zstd.SpeedFastest},
	"zstd-best":    &zstd.Codec{Level: zstd.SpeedBestCompression},
	"lz4-fastest":  &lz4.Codec{Level: lz4.Fastest},
	"lz4-9":        &lz4.Codec{Level: lz4.Level9},
}

var c20CodecNames = []string{"snappy", "gzip", "brotli", "zstd", "lz4", "uncompressed", "gzip-1", "gzip-9", "brotli-1", "zstd-fastest", "zstd-best", "lz4-fastest", "lz4-9"}

var c20XKinds = []string{"random", "empty", "one", "runs", "text", "pow2", "zeros"}
var c20Dsts = []string{"nil", "zerocap", "small", "exact", "large", "dirty"}

type C20 struct{}

func (C20) ID() string { return "C20" }

func (C20) Info() core.Info {
	return core.Info{
		Level: "exploration",
		Rule: "one run = a seeded history of Encode/Decode calls on one shared codec value (the six package-level codecs and fresh instances at other levels) with inputs from {empty, 1 byte, incompressible random, long runs, text, sizes around powers of two, zeros} and destination buffers from {nil, zero-cap, too small, exact, large, dirty}, interleaved with failing decodes (bit-flipped, truncated, garbage input; a panic of a failing decode is recovered and counted). The deterministic pool (LIFO) makes the reader/writer instance that just failed the next one handed out, and poisons released slice memory. Oracle: Decode(Encode(x)) == x at every point of every history; Encode does not modify x; results stay equal until the end of the run. " +
			"In the concurrent configuration 2-4 tasks run such histories on the same codec value under the seeded scheduler (yield points at every pool Get/Put), also under the race detector. distinct = distinct (codec, op-shape) signatures; non-trivial = >= 1 roundtrip after >= 1 earlier call (>= 1 failing decode counted separately as a probe)",
		Real:   []string{"parquet-go compress package and codec adapters, klauspost/compress (snappy, gzip, zstd), andybalholm/brotli, pierrec/lz4 (all real code; their internal sync.Pools stay real)"},
		Stubs:  []string{"internal/memory.Pool (deterministic H1 pool with poison H2; yield point of the scheduler)", "goroutine scheduling (E3 one-at-a-time scheduler) in the concurrent configuration"},
		Assume: []string{"corrupted inputs are not fed to the LZ4 codec: its retry loop doubles the output buffer forever on an undecodable block (robustness hazard outside C20's statement)", "sync.Pools inside third-party codecs are not simulated"},
	}
}

func (C20) Budget(tier string) core.Budget {
	if tier == "thorough" {
		return core.Budget{Runs: 60000, MaxWall: 15 * 60e9, Race: 4000}
	}
	return core.Budget{Runs: 3000, MaxWall: 30e9, Race: 400}
}

func (C20) New() any { return &C20Scenario{} }

func (C20) Gen(t *tape.Tape, tier string) any {
	sc := &C20Scenario{}
	sc.Codec = c20CodecNames[t.Draw(len(c20CodecNames))]
	sc.Pools = GenPoolPolicy(t)
	n := t.Range(2, 16)
	for i := 0; i < n; i++ {
		op := CodecOp{Op: "roundtrip"}
		if t.Chance(1, 4) {
			op.Op = "baddecode"
			op.Corrupt = []string{"flip", "truncate", "garbage"}[t.Draw(3)]
		}
		op.XKind = c20XKinds[t.Draw(len(c20XKinds))]
		op.XLen = []int{100, 0, 1, 7, 255, 256, 257, 1000, 4095, 4096, 4097, 20000, 65536, 70000}[t.Draw(14)]
		op.XSeed = t.Seed()
		op.EncDst = c20Dsts[t.Draw(len(c20Dsts))]
		op.DecDst = c20Dsts[t.Draw(len(c20Dsts))]
		sc.Ops = append(sc.Ops, op)
	}
	if t.Chance(1, 3) {
		sc.Tasks = t.Range(2, 4)
		sc.SchedSeed = t.Seed()
	}
	return sc
}

func c20Input(op CodecOp) []byte {
	r := tape.NewRng(op.XSeed)
	n := op.XLen
	switch op.XKind {
	case "empty":
		return []byte{}
	case "one":
		return []byte{byte(r.Intn(256))}
	case "pow2":
		n = 1 << uint(r.Intn(17))
		n += r.Intn(3) - 1
		if n < 0 {
			n = 0
		}
	}
	x := make([]byte, n)
	switch op.XKind {
	case "random", "pow2":
		r.Bytes(x)
	case "runs":
		for i := 0; i < n; {
			b := byte(r.Intn(4))
			l := 1 + r.Intn(300)
			for j := 0; j < l && i < n; j++ {
				x[i] = b
				i++
			}
		}
	case "text":
		words := []string{"parquet ", "column ", "page ", "the ", "of ", "dictionary ", "\n"}
		for i := 0; i < n; {
			w := words[r.Intn(len(words))]
			i += copy(x[i:], w)
		}
	case "zeros":
	}
	return x
}

func c20Dst(kind string, want int, r *tape.Rng) []byte {
	switch kind {
	case "nil":
		return nil
	case "zerocap":
		return make([]byte, 0)
	case "small":
		return make([]byte, 0, want/3)
	case "exact":
		return make([]byte, 0, want)
	case "large":
		return make([]byte, 0, 2*want+64)
	case "dirty":
		d := make([]byte, want+17)
		r.Bytes(d)
		return d[:want/2]
	}
	return nil
}

type c20Held struct {
	op  int
	x   []byte
	dec []byte
}

// c20RunOps executes a history on codec; it is used by one task.
func c20RunOps(c *core.Ctx, name string, codec compress.Codec, ops []CodecOp, task string, probe func(string)) *core.Violation {
	var held []c20Held
	for i, op := range ops {
		x := c20Input(op)
		orig := append([]byte(nil), x...)
		if c != nil {
			c.Step()
		}
		r := tape.NewRng(op.XSeed + 1)
		enc, err := codec.Encode(c20Dst(op.EncDst, len(x), r), x)
		if err != nil {
			return core.Violate("C20/encode-error/"+name, "%sop %d: Encode of %d bytes: %v", task, i, len(x), err)
		}
		if !bytes.Equal(x, orig) {
			return core.Violate("C20/encode-modified-input/"+name, "%sop %d: Encode changed its %d-byte input", task, i, len(x))
		}
		if op.Op == "baddecode" {
			if len(name) >= 3 && name[:3] == "lz4" {
				continue
			}
			bad := append([]byte(nil), enc...)
			switch op.Corrupt {
			case "flip":
				if len(bad) > 0 {
					bad[r.Intn(len(bad))] ^= 1 << uint(r.Intn(8))
				}
			case "truncate":
				bad = bad[:len(bad)/2]
			case "garbage":
				bad = make([]byte, 1+r.Intn(64))
				r.Bytes(bad)
			}
			func() {
				defer func() {
					if p := recover(); p != nil {
						probe("failing-decode-panicked")
					}
				}()
				_, derr := codec.Decode(c20Dst(op.DecDst, len(x), r), bad)
				if derr != nil {
					probe("failing-decode-error")
				} else {
					probe("corrupted-input-decoded-without-error")
				}
			}()
			continue
		}
		encCopy := append([]byte(nil), enc...)
		dec, err := codec.Decode(c20Dst(op.DecDst, len(x), r), enc)
		if err != nil {
			return core.Violate("C20/decode-error/"+name, "%sop %d: Decode(Encode(x)) of %d bytes (%s) failed: %v", task, i, len(x), op.XKind, err)
		}
		if !bytes.Equal(dec, orig) {
			return core.Violate("C20/roundtrip-differs/"+name, "%sop %d: Decode(Encode(x)) != x for %d bytes of %s (enc dst %s, dec dst %s): got %d bytes, first difference at %d", task, i, len(x), op.XKind, op.EncDst, op.DecDst, len(dec), firstDiff(dec, orig))
		}
		if !bytes.Equal(enc, encCopy) {
			return core.Violate("C20/decode-modified-input/"+name, "%sop %d: Decode changed its input", task, i)
		}
		held = append(held, c20Held{i, orig, dec})
		// earlier results must still hold
		for _, h := range held {
			if !bytes.Equal(h.dec, h.x) {
				return core.Violate("C20/earlier-result-changed/"+name, "%sthe slice returned by Decode at op %d changed after op %d", task, h.op, i)
			}
		}
	}
	return nil
}

func (C20) Run(s any, c *core.Ctx) core.Outcome {
	sc := s.(*C20Scenario)
	out := core.Outcome{}
	codec := c20Codecs[sc.Codec]
	if codec == nil {
		panic("unknown codec " + sc.Codec)
	}
	sig := sc.Codec + "|"
	bad := 0
	for _, op := range sc.Ops {
		sig += op.Op[:1] + op.XKind[:2] + op.EncDst[:1] + op.DecDst[:1]
		if op.Op == "baddecode" {
			bad++
		}
	}
	out.Sig = fmt.Sprintf("%s|t%d", sig, sc.Tasks)
	out.Nontrivial = len(sc.Ops)-bad >= 1 && len(sc.Ops) >= 2
	out.Sample = map[string]any{"codec": sc.Codec, "ops": len(sc.Ops), "failing_decodes": bad, "tasks": sc.Tasks, "first_ops": sc.Ops[:min(3, len(sc.Ops))]}
	if sc.Tasks > 1 {
		out.Violation = c20Concurrent(sc, c, codec)
		return out
	}
	sc.Pools.Install()
	out.Violation = c20RunOps(c, sc.Codec, codec, sc.Ops, "", c.Probe)
	return out
}
