package props

import (
	"bytes"
	crand "crypto/rand"
	"encoding/binary"
	"errors"
	"fmt"
	"io"
	"os"
	"strings"

	"github.com/parquet-go/parquet-go"

	"pqsim/core"
	"pqsim/env"
	"pqsim/gen"
	"pqsim/tape"
)

// C18 — encrypted files round-trip, leak no plaintext and authenticate every
// module (E2: stored-byte tampering, module swaps and transplants, key faults).

type C18Case struct {
	Kind   string `json:"kind"` // flip | truncate-module | swap | transplant | wrong-footer-key | wrong-column-key | missing-column-key | retriever-error
	Off    int64  `json:"off,omitempty"`
	Bit    int    `json:"bit,omitempty"`
	A      int    `json:"a,omitempty"` // module indexes
	B      int    `json:"b,omitempty"`
	Column string `json:"column,omitempty"`
}

func (k C18Case) String() string {
	return fmt.Sprintf("%s off=%d bit=%d a=%d b=%d col=%s", k.Kind, k.Off, k.Bit, k.A, k.B, k.Column)
}

type C18Scenario struct {
	Plan            WritePlan  `json:"plan"`
	Pools           PoolPolicy `json:"pools"`
	F               gen.FOpts  `json:"file_opts"`
	EncryptedFooter bool       `json:"encrypted_footer"`
	ColumnKeys      []string   `json:"column_keys"` // dot-joined paths with their own key
	AadPrefix       bool       `json:"aad_prefix"`
	RandSeed        uint64     `json:"rand_seed"` // seeds crypto/rand.Reader: nonces and file id
	Seeks           []SeekOp   `json:"seeks"`
	SampleSeed      uint64     `json:"sample_seed"`
	MaxBytes        int        `json:"max_bytes"`
	Wide            bool       `json:"wide,omitempty"` // more than 256 row groups: ordinals beyond one byte
	// Mode: "" two fresh writers with configured file identifiers; "random-id"
	// two fresh writers, identifiers left to the library; "reuse" one writer
	// instance writes the transplant donor, is Reset (after Close, or after
	// Close and an abandoned start) and writes the file under test,
	// identifiers left to the library; "rowgroup-writers" the rows go through
	// BeginRowGroup / ColumnWriters / Commit
	Mode      string `json:"mode,omitempty"`
	Abandoned bool   `json:"abandoned,omitempty"`
	// Style: "" WithEncryption among the options; "config-struct" the options
	// folded into a *WriterConfig passed as the only option; "sorting-writer" a
	// SortingWriter sorting by id (the order the rows are written in)
	Style  string   `json:"style,omitempty"`
	Only   *C18Case `json:"only,omitempty"`
	Failed *C18Case `json:"failed,omitempty"`
}

func (s *C18Scenario) Focus(v *core.Violation) {
	if s.Failed != nil {
		k := *s.Failed
		s.Only = &k
	}
}

type C18 struct{}

func (C18) ID() string { return "C18" }

func (C18) Info() core.Info {
	return core.Info{
		Level: "fault_enumeration",
		Rule: "one run = one seeded encrypted file (writer history + options; encrypted or signed-plaintext footer; footer key only or per-column keys; optional AAD prefix; crypto/rand.Reader replaced by a seeded stream so nonces and file ids replay) checked for (1) round trip incl. seek/read histories with the right keys, (2) no occurrence of any high-entropy written byte string (>= 12 bytes) anywhere in the file bytes, (3) tampering: bit flips at sampled or all byte offsets of the whole file, truncation of module envelopes, every equal-length pair of module envelopes swapped, envelopes transplanted from a second file written with the same keys but another file identifier, and key faults (wrong footer key, wrong column key, missing column key, failing retriever). " +
			"Oracle: a full read (open with page index, every row, every column/offset index, a bloom check per chunk) of a tampered file fails with an error or - only where the byte is not part of any authenticated module - returns exactly the original rows; inside module envelopes an error is mandatory; never wrong rows, never a panic; a column whose key is missing fails on access while the others read correctly. evaluations = tampered-file executions; distinct non-trivial = distinct (file, tamper case) pairs",
		Real:      []string{"parquet-go encryption/decryption (AES-GCM modules, AAD construction, footer signing), writer, reader (all real code from /repo)"},
		Stubs:     []string{"crypto/rand.Reader (seeded ChaCha-free deterministic stream)", "KeyRetriever (harness: right / wrong / missing / failing keys)", "source io.ReaderAt (SimFile holding the tampered image)", "destination io.Writer (SimSink)"},
		Assume:    []string{"module envelopes are located by walking the 4-byte length prefixes from offset 4 to the footer; when the walk does not land on the footer the swap/transplant cases are skipped and counted", "AES-GCM forgery probability is negligible"},
		FaultKind: []string{"flip(bit)@byte", "truncate-module", "swap(moduleA,moduleB)", "transplant(file2->file1)", "wrong-footer-key", "wrong-column-key", "missing-column-key", "retriever-error"},
	}
}

func (C18) Budget(tier string) core.Budget {
	if tier == "thorough" {
		return core.Budget{Runs: 3000, MaxWall: 30 * 60e9}
	}
	return core.Budget{Runs: 160, MaxWall: 40e9}
}

func (C18) New() any { return &C18Scenario{} }

func (C18) Gen(t *tape.Tape, tier string) any {
	sc := &C18Scenario{}
	shapes := []gen.Shape{gen.ShapeFlat, gen.ShapeNested, gen.ShapeLogical, gen.ShapeDyn, gen.ShapeGen}
	sc.Plan = GenWritePlan(t, shapes, 200)
	if sc.Plan.NRows == 0 {
		sc.Plan.NRows = 1 + t.Draw(30)
		sc.Plan.Ops = genOps(t, sc.Plan.NRows)
	}
	if sc.Plan.Profile == 0 {
		sc.Plan.Profile = 1 + t.Draw(2)
	}
	sh := gen.ShapeByName(sc.Plan.Shape)
	if t.Chance(1, 3) {
		gen.GenBloom(t, sh, &sc.Plan.W)
	}
	sc.Pools = GenPoolPolicy(t)
	sc.F = gen.GenFOpts(t)
	sc.F.Optimistic = false
	sc.EncryptedFooter = t.Bool()
	paths := sh.Schema().Columns()
	if t.Bool() {
		for _, p := range paths {
			if t.Chance(1, 3) {
				sc.ColumnKeys = append(sc.ColumnKeys, strings.Join(p, "."))
			}
		}
	}
	sc.AadPrefix = t.Bool()
	sc.RandSeed = t.Seed()
	sc.Seeks = genSeekOps(t, int64(sc.Plan.NRows), t.Range(0, 14))
	sc.SampleSeed = t.Seed()
	sc.Mode = []string{"", "random-id", "reuse", "rowgroup-writers"}[t.Weighted(3, 1, 3, 2)]
	sc.Abandoned = t.Bool()
	sc.Style = []string{"", "config-struct", "sorting-writer"}[t.Weighted(4, 1, 1)]
	if sc.Mode == "rowgroup-writers" {
		sc.Style = ""
		sc.Plan.WriterKind = []string{gen.WGeneric, gen.WReflect}[t.Draw(2)]
	}
	if t.Chance(1, 8) {
		sc.Mode = ""
		// module ordinals are 16-bit: a file with more than 256 row groups makes
		// modules whose ordinals differ by 256 available for swapping
		sc.Wide = true
		sc.Plan.Shape = "flat"
		sc.Plan.NRows = 258 + t.Draw(40)
		sc.Plan.Ops = []WOp{{Op: "write", N: sc.Plan.NRows}}
		sc.Plan.W = gen.WOpts{WriteBufferSize: -1, MaxRowsPerGroup: 1, PageVersion: 1 + t.Draw(2)}
		if t.Bool() {
			// one row group whose chunks have more than 256 pages instead
			// (the writer looks at the page size limit once per Write call)
			sc.Plan.Ops = nil
			for i := 0; i < sc.Plan.NRows; i++ {
				sc.Plan.Ops = append(sc.Plan.Ops, WOp{Op: "write", N: 2})
			}
			sc.Plan.NRows = 2 * sc.Plan.NRows
			sc.Plan.W.MaxRowsPerGroup = 0
			sc.Plan.W.PageBufferSize = 16
		}
		sc.Plan.WriterKind = gen.WGeneric
		sc.ColumnKeys = nil
		if t.Bool() {
			sc.ColumnKeys = []string{"id", "s"}
		}
		sc.Seeks = nil
	}
	if tier == "thorough" {
		sc.MaxBytes = 600
		if t.Chance(1, 4) {
			sc.MaxBytes = 0
		}
	} else {
		sc.MaxBytes = 60
	}
	return sc
}

// detRand is the seeded replacement of crypto/rand.Reader.
type detRand struct{ r *tape.Rng }

func (d detRand) Read(p []byte) (int, error) { d.r.Bytes(p); return len(p), nil }

type keyRing struct {
	footer      []byte
	cols        map[string][]byte
	wrongFooter bool
	wrongCol    string
	missingCol  string
	failing     bool
}

func (k *keyRing) FooterKey([]byte) ([]byte, error) {
	if k.failing {
		return nil, errors.New("pqsim: key service unavailable")
	}
	if k.wrongFooter {
		return bytes.Repeat([]byte{0x5a}, len(k.footer)), nil
	}
	return k.footer, nil
}

func (k *keyRing) ColumnKey(path []string, _ []byte) ([]byte, error) {
	p := strings.Join(path, ".")
	if p == k.missingCol {
		return nil, fmt.Errorf("no key for %s: %w", p, parquet.ErrKeyNotFound)
	}
	key, ok := k.cols[p]
	if !ok {
		return nil, fmt.Errorf("no key for %s: %w", p, parquet.ErrKeyNotFound)
	}
	if p == k.wrongCol {
		return bytes.Repeat([]byte{0xa5}, len(key)), nil
	}
	return key, nil
}

type c18run struct {
	sc        *C18Scenario
	c         *core.Ctx
	sh        gen.Shape
	data      gen.Data
	good      []byte
	other     []byte // second file: same keys, another file identifier
	keys      *keyRing
	evals     int
	sigs      []uint64
	base      string
	sharedCfg *parquet.EncryptionConfig
	footer    int64 // offset where the footer section starts
	// offset where the authenticated part of the footer section starts
	footerModule int64
	mods         [][2]int64
	mods2        [][2]int64
}

func (r *c18run) config(fileID []byte) *parquet.EncryptionConfig {
	sc := r.sc
	cfg := &parquet.EncryptionConfig{FooterKey: r.keys.footer, EncryptedFooter: sc.EncryptedFooter, FileIdentifier: fileID}
	if len(r.keys.cols) > 0 {
		cfg.ColumnKeys = r.keys.cols
	}
	if sc.AadPrefix {
		cfg.AadPrefix = []byte("pqsim-aad")
	}
	return cfg
}

// newWriter builds the writer the way the scenario's style says.
func (r *c18run) newWriter(face io.Writer, cfg *parquet.EncryptionConfig, e *gen.Env) (gen.Writer, *core.Violation) {
	sc := r.sc
	opts := append(sc.Plan.W.Options(e), parquet.WithEncryption(cfg))
	switch sc.Style {
	case "config-struct":
		wc, err := parquet.NewWriterConfig(opts...)
		if err != nil {
			return nil, core.Violate("C18/harness/writer-config", "%v", err)
		}
		opts = []parquet.WriterOption{wc}
	case "sorting-writer":
		opts = append(opts, parquet.SortingWriterConfig(parquet.SortingColumns(parquet.Ascending("id"))))
		return r.sh.NewSortingWriter(face, int64(1+sc.Plan.NRows/3), opts...), nil
	}
	return r.sh.NewWriter(sc.Plan.WriterKind, face, opts...), nil
}

// write produces one file from a fresh writer.
func (r *c18run) write(fileID []byte, seedOff uint64) ([]byte, *core.Violation) {
	sc := r.sc
	old := crand.Reader
	crand.Reader = detRand{tape.NewRng(sc.RandSeed + seedOff)}
	defer func() { crand.Reader = old }()
	e := &gen.Env{Ctx: r.c}
	sink, face := env.NewSink(r.c, sc.Plan.Sink, nil)
	cfg := r.config(fileID)
	if fileID == nil {
		// the application's one configuration value serves all its writers
		if r.sharedCfg == nil {
			r.sharedCfg = cfg
		}
		cfg = r.sharedCfg
	}
	w, v := r.newWriter(face, cfg, e)
	if v != nil {
		return nil, v
	}
	res := &Written{Shape: r.sh, Data: r.data, Sink: sink, Env: e, W: w}
	if sc.Mode == "rowgroup-writers" {
		r.runRowGroupWriters(res)
	} else {
		res.RunOps(r.c, sc.Plan.Ops, 0)
	}
	if res.FirstErr != nil {
		return nil, core.Violate("C18/write-error/"+res.ErrOp, "%v", res.FirstErr)
	}
	return append([]byte(nil), sink.Bytes()...), nil
}

// runRowGroupWriters writes the plan's batches as row groups filled through
// their column writers.
func (r *c18run) runRowGroupWriters(res *Written) {
	bw, ok := res.W.Raw().(interface {
		BeginRowGroup() *parquet.ConcurrentRowGroupWriter
	})
	if !ok {
		res.FirstErr, res.ErrOp = fmt.Errorf("writer %T has no BeginRowGroup", res.W.Raw()), "begin"
		return
	}
	rows := r.data.Rows()
	cursor := 0
	for _, op := range r.sc.Plan.Ops {
		if (op.Op != "write" && op.Op != "sortedrg") || op.N == 0 {
			continue
		}
		hi := min(cursor+op.N, len(rows))
		if hi == cursor {
			continue
		}
		rg := bw.BeginRowGroup()
		for ci, cw := range rg.ColumnWriters() {
			if _, err := cw.WriteRowValues(columnValues(rows[cursor:hi], ci)); err != nil {
				res.FirstErr, res.ErrOp = err, "write-row-values"
				return
			}
		}
		if _, err := rg.Commit(); err != nil {
			res.FirstErr, res.ErrOp = err, "commit"
			return
		}
		r.c.Probe("row-groups-through-column-writers")
		cursor = hi
	}
	if err := res.W.Close(); err != nil {
		res.FirstErr, res.ErrOp = err, "close"
	}
}

// writeReused produces the donor file and the file under test from one writer
// instance, the library choosing the file identifiers.
func (r *c18run) writeReused() (donor, good []byte, v *core.Violation) {
	sc := r.sc
	old := crand.Reader
	crand.Reader = detRand{tape.NewRng(sc.RandSeed)}
	defer func() { crand.Reader = old }()
	e := &gen.Env{Ctx: r.c}
	sink, face := env.NewSink(r.c, sc.Plan.Sink, nil)
	w, v := r.newWriter(face, r.config(nil), e)
	if v != nil {
		return nil, nil, v
	}
	res := &Written{Shape: r.sh, Data: r.data, Sink: sink, Env: e, W: w}
	res.RunOps(r.c, sc.Plan.Ops, 0)
	if res.FirstErr != nil {
		return nil, nil, core.Violate("C18/write-error/"+res.ErrOp, "first life: %v", res.FirstErr)
	}
	donor = append([]byte(nil), sink.Bytes()...)
	if sc.Abandoned {
		_, xface := env.NewSink(r.c, sc.Plan.Sink, nil)
		w.Reset(xface)
		x := &Written{Shape: r.sh, Data: r.data, Env: e, W: w}
		x.runOpsNoClose(r.c, sc.Plan.Ops[:(len(sc.Plan.Ops)+1)/2])
		if x.FirstErr != nil {
			return nil, nil, core.Violate("C18/write-error/"+x.ErrOp, "abandoned life: %v", x.FirstErr)
		}
		r.c.Probe("reused-after-abandoned-content")
	}
	sink2, face2 := env.NewSink(r.c, sc.Plan.Sink, nil)
	w.Reset(face2)
	res2 := &Written{Shape: r.sh, Data: r.data, Sink: sink2, Env: e, W: w}
	res2.RunOps(r.c, sc.Plan.Ops, 0)
	if res2.FirstErr != nil {
		return nil, nil, core.Violate("C18/write-error/"+res2.ErrOp, "after Reset: %v", res2.FirstErr)
	}
	r.c.Probe("reused-writer-files")
	return donor, append([]byte(nil), sink2.Bytes()...), nil
}

// fullRead opens img with keys and reads everything every module is needed for.
func (r *c18run) fullRead(img []byte, keys *keyRing, skipCol int) (res driveResult) {
	sc := r.sc
	sf := env.NewFile(r.c, img)
	sf.EOFAtEnd = sc.F.EOFAtEnd
	fo := sc.F
	fo.SkipPageIndex, fo.SkipBloomFilters = false, false
	opts := append(fo.Options(), parquet.WithDecryption(keys))
	f, err := parquet.OpenFile(sf, sf.Size(), opts...)
	if err != nil {
		res.Err, res.Stage = err, "open"
		return
	}
	model := r.data.Rows()
	// indexes and bloom filters
	pos := 0
	for _, rg := range f.RowGroups() {
		n := int(rg.NumRows())
		for ci, cc := range rg.ColumnChunks() {
			if ci == skipCol {
				continue
			}
			if _, err := cc.ColumnIndex(); err != nil && !errors.Is(err, parquet.ErrMissingColumnIndex) {
				res.Err, res.Stage = err, "column-index"
				return
			}
			if _, err := cc.OffsetIndex(); err != nil && !errors.Is(err, parquet.ErrMissingOffsetIndex) {
				res.Err, res.Stage = err, "offset-index"
				return
			}
			if bf := cc.BloomFilter(); bf != nil && pos+n <= len(model) {
				// every filter is consulted once, so its header and bitset
				// modules are needed by this read
				probe := parquet.ZeroValue(cc.Type().Kind())
				written := false
				for _, v := range columnValues(model[pos:pos+n], ci) {
					if !v.IsNull() {
						probe, written = v, true
						break
					}
				}
				ok, err := bf.Check(probe)
				if err != nil {
					res.Err, res.Stage = err, "bloom"
					return
				}
				if written && !ok {
					res.Wrong = core.Violate("C18/bloom-false-negative", "column %d", ci)
					return
				}
			}
		}
		pos += n
	}
	if skipCol >= 0 {
		// per-column reads of every other column; the skipped one must fail
		for _, rg := range f.RowGroups() {
			for ci, cc := range rg.ColumnChunks() {
				_, _, err := readColumnPages(cc, r.c)
				if ci == skipCol {
					if err == nil || errors.Is(err, io.EOF) {
						res.Wrong = core.Violate("C18/missing-key-column-readable", "column %d was read without its key", ci)
						return
					}
					continue
				}
				if err != nil && !errors.Is(err, io.EOF) {
					res.Err, res.Stage = err, "pages"
					return
				}
			}
		}
		res.Complete = true
		return
	}
	// every row, with the scenario's seek/read history first
	rc := &rowCursor{prop: "C18", path: "reader", model: model}
	rd := parquet.NewReader(f)
	defer rd.Close()
	back, served := 0, 0
	if v := c08RowOps(r.c, "encrypted-reader", rd, model, sc.Seeks, &back, &served); v != nil {
		if strings.Contains(v.Class, "read-error") || strings.Contains(v.Class, "seek-error") {
			res.Err, res.Stage = errors.New(v.Detail), "seek-history"
			return
		}
		res.Wrong = v
		return
	}
	if err := rd.SeekToRow(0); err != nil {
		res.Err, res.Stage = err, "seek"
		return
	}
	b := &batches{sizes: []int{64, 7}}
	for {
		n := b.next()
		buf := make([]parquet.Row, n)
		m, err := rd.ReadRows(buf)
		done, v := rc.check(buf, m, err, n)
		if v != nil {
			if strings.Contains(v.Class, "read-error") {
				res.Err, res.Stage = err, "read"
			} else {
				res.Wrong = v
			}
			res.Delivered = rc.pos
			return
		}
		if done {
			break
		}
	}
	res.Delivered = rc.pos
	res.Complete = rc.pos == len(model)
	return
}

// walkModules lists the envelopes between offset 4 and the footer.
func walkModules(img []byte, footerStart int64) ([][2]int64, bool) {
	var mods [][2]int64
	off := int64(4)
	for off < footerStart {
		if off+4 > footerStart {
			return nil, false
		}
		l := int64(binary.LittleEndian.Uint32(img[off:]))
		if l < 28 || off+4+l > footerStart {
			return nil, false
		}
		mods = append(mods, [2]int64{off, 4 + l})
		off += 4 + l
	}
	return mods, off == footerStart
}

func (C18) Run(s any, c *core.Ctx) (out core.Outcome) {
	sc := s.(*C18Scenario)
	sc.Failed = nil
	if sc.Mode == "rowgroup-writers" {
		// its own classes: what fails for row groups filled through their column
		// writers says nothing about files written through Write
		defer func() {
			if out.Violation != nil {
				if strings.HasPrefix(out.Violation.Class, "C18/roundtrip/") {
					// one class for "the right keys do not read it back", however it shows
					out.Violation.Class = "C18/roundtrip/not-readable-with-right-keys"
				}
				out.Violation.Class += "/rowgroup-writers"
			}
		}()
	}
	r := &c18run{sc: sc, c: c}
	r.sh, r.data = sc.Plan.MakeData()
	sc.Pools.Install()
	kr := tape.NewRng(sc.RandSeed ^ 0x9e3779b97f4a7c15)
	r.keys = &keyRing{footer: make([]byte, []int{16, 24, 32}[kr.Intn(3)]), cols: map[string][]byte{}}
	kr.Bytes(r.keys.footer)
	for _, p := range sc.ColumnKeys {
		k := make([]byte, 16)
		kr.Bytes(k)
		r.keys.cols[p] = k
	}
	var v *core.Violation
	switch sc.Mode {
	case "reuse":
		if r.other, r.good, v = r.writeReused(); v != nil {
			out.Violation = v
			return out
		}
	case "random-id":
		// identifiers drawn by the library from (simulated) crypto/rand
		if r.good, v = r.write(nil, 0); v != nil {
			out.Violation = v
			return out
		}
		if r.other, v = r.write(nil, 1); v != nil {
			out.Violation = v
			return out
		}
	default:
		if r.good, v = r.write([]byte("fileid01"), 0); v != nil {
			out.Violation = v
			return out
		}
		if r.other, v = r.write([]byte("fileid02"), 0); v != nil {
			out.Violation = v
			return out
		}
	}
	if d := os.Getenv("PQSIM_DUMP"); d != "" {
		os.WriteFile(d+"/good.parquet", r.good, 0o644)
		os.WriteFile(d+"/other.parquet", r.other, 0o644)
		os.WriteFile(d+"/footer.key", r.keys.footer, 0o644)
	}
	r.base = fmt.Sprintf("%s|%s%v%s|%d|%d|%s|%v|%v|", sc.Plan.Shape, sc.Mode, sc.Abandoned, sc.Style, sc.Plan.RowSeed, sc.Plan.NRows, sc.Plan.W.Sig(), sc.EncryptedFooter, sc.ColumnKeys)
	out.Sample = map[string]any{"shape": sc.Plan.Shape, "mode": sc.Mode, "style": sc.Style, "rows": sc.Plan.NRows, "encrypted_footer": sc.EncryptedFooter, "column_keys": sc.ColumnKeys, "file_bytes": len(r.good), "opts": sc.Plan.W.Sig()}

	// (1) no plaintext
	seen := map[string]bool{}
	for _, row := range r.data.Rows() {
		for _, val := range row {
			if val.IsNull() || (val.Kind() != parquet.ByteArray && val.Kind() != parquet.FixedLenByteArray) {
				continue
			}
			b := val.ByteArray()
			if len(b) < 12 || seen[string(b)] || lowEntropy(b) {
				continue
			}
			seen[string(b)] = true
			if i := bytes.Index(r.good, b); i >= 0 {
				out.Violation = core.Violate("C18/plaintext-leak", "a %d-byte value of column %d appears in clear at file offset %d", len(b), val.Column(), i)
				return out
			}
		}
	}
	// (2) round trip with the right keys
	r.evals++
	if v := r.otherReaders(); v != nil {
		out.Violation = v
		return out
	}
	res := r.fullRead(r.good, r.keys, -1)
	switch {
	case res.Wrong != nil:
		res.Wrong.Class = "C18/roundtrip/" + lastSeg(res.Wrong.Class)
		out.Violation = res.Wrong
	case res.Err != nil:
		out.Violation = core.Violate("C18/roundtrip/error-with-right-keys", "stage %s: %v", res.Stage, res.Err)
	case !res.Complete:
		out.Violation = core.Violate("C18/roundtrip/missing-rows", "%d of %d rows", res.Delivered, r.data.Len())
	}
	if out.Violation != nil {
		return out
	}
	c.ProbeN("plaintext-tokens-searched", len(seen))
	// footer section start
	flen := int64(binary.LittleEndian.Uint32(r.good[len(r.good)-8:]))
	r.footer = int64(len(r.good)) - 8 - flen
	// with an encrypted footer the section starts with the FileCryptoMetaData
	// structure in clear (not a module: nothing authenticates its framing); the
	// footer module is the envelope whose length prefix reaches the end
	r.footerModule = r.footer
	if sc.EncryptedFooter {
		end := int64(len(r.good)) - 8
		for p := r.footer; p+4 <= end; p++ {
			if int64(binary.LittleEndian.Uint32(r.good[p:]))+p+4 == end {
				r.footerModule = p
				break
			}
		}
	}
	var ok bool
	if r.mods, ok = walkModules(r.good, r.footer); !ok {
		c.Probe("module-walk-failed")
		r.mods = nil
	}
	if r.mods2, ok = walkModules(r.other, int64(len(r.other))-8-int64(binary.LittleEndian.Uint32(r.other[len(r.other)-8:]))); !ok {
		r.mods2 = nil
	}
	out.Violation = r.tamper()
	out.Evals = r.evals
	out.SubSigs = r.sigs
	out.Nontrivial = len(r.sigs) > 0
	return out
}

func lowEntropy(b []byte) bool {
	distinct := map[byte]bool{}
	for _, x := range b {
		distinct[x] = true
	}
	return len(distinct) < 6
}

func (r *c18run) tamper() *core.Violation {
	sc := r.sc
	if sc.Only != nil {
		return r.run1(*sc.Only)
	}
	rng := tape.NewRng(sc.SampleSeed)
	n := int64(len(r.good))
	if sc.Wide {
		return r.tamperWide(rng)
	}
	// bit flips
	var offs []int64
	if sc.MaxBytes == 0 || int64(sc.MaxBytes) >= n {
		for i := int64(0); i < n; i++ {
			offs = append(offs, i)
		}
	} else {
		// module starts (length prefix, nonce), module ends (tag), footer, then random
		for _, m := range r.mods {
			if len(offs) < sc.MaxBytes/2 && rng.Intn(3) == 0 {
				offs = append(offs, m[0], m[0]+4, m[0]+m[1]-1)
			}
		}
		offs = append(offs, 0, n-1, n-5, n-9, r.footer, r.footer+1)
		for len(offs) < sc.MaxBytes {
			offs = append(offs, int64(rng.Uint64()%uint64(n)))
		}
	}
	for _, off := range offs {
		if off < 0 || off >= n {
			continue
		}
		if r.c.Expired() {
			break
		}
		if v := r.run1(C18Case{Kind: "flip", Off: off, Bit: rng.Intn(8)}); v != nil {
			return v
		}
	}
	// module truncation, swaps, transplants
	for i, m := range r.mods {
		if r.c.Expired() {
			break
		}
		if rng.Intn(4) == 0 || len(r.mods) < 12 {
			if v := r.run1(C18Case{Kind: "truncate-module", A: i}); v != nil {
				return v
			}
		}
		_ = m
	}
	pairs := 0
	for i := range r.mods {
		if r.c.Expired() {
			break
		}
		for j := i + 1; j < len(r.mods); j++ {
			if r.mods[i][1] != r.mods[j][1] || bytes.Equal(r.good[r.mods[i][0]:r.mods[i][0]+r.mods[i][1]], r.good[r.mods[j][0]:r.mods[j][0]+r.mods[j][1]]) {
				continue
			}
			if sc.MaxBytes != 0 && pairs >= 40 {
				continue
			}
			pairs++
			if v := r.run1(C18Case{Kind: "swap", A: i, B: j}); v != nil {
				return v
			}
		}
	}
	if len(r.mods2) == len(r.mods) {
		for i := range r.mods {
			if r.mods[i] == r.mods2[i] && (sc.MaxBytes == 0 || rng.Intn(3) == 0 || len(r.mods) < 20) {
				if v := r.run1(C18Case{Kind: "transplant", A: i}); v != nil {
					return v
				}
			}
		}
	} else if r.mods != nil {
		r.c.Probe("transplant-skipped-layout-differs")
	}
	// key faults
	for _, k := range []C18Case{{Kind: "wrong-footer-key"}, {Kind: "retriever-error"}} {
		if v := r.run1(k); v != nil {
			return v
		}
	}
	for _, p := range sc.ColumnKeys {
		for _, kind := range []string{"wrong-column-key", "missing-column-key"} {
			if v := r.run1(C18Case{Kind: kind, Column: p}); v != nil {
				return v
			}
		}
	}
	return nil
}

func (r *c18run) run1(k C18Case) (v *core.Violation) {
	defer func() {
		if p := recover(); p != nil {
			v = core.Violate("C18/panic/"+k.Kind, "panic: %v%s", p, core.StackIfWanted())
		}
		if v != nil {
			kk := k
			r.sc.Failed = &kk
			v.Detail = fmt.Sprintf("[tamper %s] %s", k, v.Detail)
		}
	}()
	r.evals++
	r.sigs = append(r.sigs, core.HashString(r.base+k.String()))
	r.c.Fault(k.Kind)
	r.sc.Pools.Install()
	img := append([]byte(nil), r.good...)
	keys := &keyRing{footer: r.keys.footer, cols: r.keys.cols}
	mustFail := false
	skipCol := -1
	mode := "signed-footer"
	if r.sc.EncryptedFooter {
		mode = "encrypted-footer"
	}
	switch k.Kind {
	case "flip":
		img[k.Off] ^= 1 << uint(k.Bit)
		// inside the module area (envelopes) and inside the footer section an error is mandatory
		mustFail = k.Off >= 4 && k.Off < int64(len(img))-8 && (r.mods != nil || k.Off >= r.footer)
		if k.Off >= r.footer && k.Off < r.footerModule {
			// plaintext FileCryptoMetaData: error, or exactly the original rows
			mustFail = false
			r.c.Probe("flips-in-plaintext-crypto-metadata")
		}
	case "truncate-module":
		m := r.mods[k.A]
		img = append(img[:m[0]+m[1]-1], img[m[0]+m[1]:]...)
		mustFail = true
		if k.A == len(r.mods)-1 && bytes.Equal(img[m[0]:m[0]+m[1]], r.good[m[0]:m[0]+m[1]]) {
			// the last module before the footer, and the byte that follows it equals the
			// one removed: every module reads as before (the footer is found from the end
			// of the file), nothing was modified as far as any reader can tell
			r.c.Probe("truncation-leaves-every-module-as-it-was")
			return nil
		}
	case "swap", "swap-ordinals-256-apart":
		a, b := r.mods[k.A], r.mods[k.B]
		tmp := append([]byte(nil), img[a[0]:a[0]+a[1]]...)
		copy(img[a[0]:a[0]+a[1]], img[b[0]:b[0]+b[1]])
		copy(img[b[0]:b[0]+b[1]], tmp)
		mustFail = true
	case "transplant":
		m := r.mods[k.A]
		copy(img[m[0]:m[0]+m[1]], r.other[m[0]:m[0]+m[1]])
		mustFail = !bytes.Equal(img, r.good)
	case "wrong-footer-key":
		keys.wrongFooter = true
		mustFail = true
	case "retriever-error":
		keys.failing = true
		mustFail = true
	case "wrong-column-key":
		keys.wrongCol = k.Column
		mustFail = true
	case "missing-column-key":
		keys.missingCol = k.Column
		for ci, p := range r.sh.Schema().Columns() {
			if strings.Join(p, ".") == k.Column {
				skipCol = ci
			}
		}
	}
	res := r.fullRead(img, keys, skipCol)
	if res.Wrong != nil {
		res.Wrong.Class = "C18/" + k.Kind + "/wrong-data/" + mode
		return res.Wrong
	}
	if k.Kind == "missing-column-key" {
		if res.Err != nil {
			return core.Violate("C18/missing-column-key/other-columns-fail/"+mode, "with only the key of %s missing, stage %s failed: %v", k.Column, res.Stage, res.Err)
		}
		return nil
	}
	if res.Err == nil {
		if mustFail {
			return core.Violate("C18/"+k.Kind+"/not-detected/"+mode, "a full read returned no error (rows delivered %d, complete=%v)", res.Delivered, res.Complete)
		}
		if !res.Complete {
			return core.Violate("C18/"+k.Kind+"/clean-end-missing-rows/"+mode, "rows delivered %d of %d without error", res.Delivered, r.data.Len())
		}
	}
	return nil
}

// tamperWide swaps modules holding the same position in row groups whose
// ordinals differ by 256, plus a few flips: the full read of a file with
// hundreds of row groups is too slow for the general enumeration.
func (r *c18run) tamperWide(rng *tape.Rng) *core.Violation {
	if r.mods == nil {
		r.c.Probe("wide-module-walk-failed")
		return nil
	}
	f, err := parquet.OpenFile(bytes.NewReader(r.good), int64(len(r.good)), parquet.WithDecryption(r.keys))
	if err != nil {
		return core.Violate("C18/roundtrip/error-with-right-keys", "wide: %v", err)
	}
	index := map[int64]int{}
	for i, m := range r.mods {
		index[m[0]] = i
	}
	var starts []int
	for _, rg := range f.Metadata().RowGroups {
		first := int64(-1)
		for _, col := range rg.Columns {
			off := col.MetaData.DataPageOffset
			if d := col.MetaData.DictionaryPageOffset; d != 0 && d < off {
				off = d
			}
			if off > 0 && (first < 0 || off < first) {
				first = off
			}
		}
		mi, ok := index[first]
		if !ok {
			r.c.Probe("wide-row-group-start-not-a-module")
			return nil
		}
		starts = append(starts, mi)
	}
	cases := 0
	if len(starts) == 1 {
		// pages 256 apart within one column chunk: header and body modules
		for _, cc := range f.RowGroups()[0].ColumnChunks() {
			oi, err := cc.OffsetIndex()
			if err != nil || oi == nil || oi.NumPages() <= 256 {
				continue
			}
			r.c.Probe("wide-chunks-with-more-than-256-pages")
			for k := 0; k < 3; k++ {
				p := rng.Intn(oi.NumPages() - 256)
				i, ok1 := index[oi.Offset(p)]
				j, ok2 := index[oi.Offset(p+256)]
				if !ok1 || !ok2 {
					r.c.Probe("wide-page-start-not-a-module")
					continue
				}
				for d := 0; d < 2; d++ {
					a, b := r.mods[i+d], r.mods[j+d]
					if a[1] != b[1] {
						continue
					}
					cases++
					r.c.Probe("wide-swaps-256-apart")
					if v := r.run1(C18Case{Kind: "swap-ordinals-256-apart", A: i + d, B: j + d}); v != nil {
						return v
					}
				}
			}
		}
	}
	if len(starts) > 256 {
		r.c.Probe("wide-files-with-more-than-256-row-groups")
	}
	for g := 0; g+256 < len(starts) && cases < 24; g++ {
		per := starts[g+1] - starts[g]
		for _, d := range []int{rng.Intn(per), rng.Intn(per)} {
			i, j := starts[g]+d, starts[g+256]+d
			if j >= len(r.mods) || r.mods[i][1] != r.mods[j][1] {
				continue
			}
			if bytes.Equal(r.good[r.mods[i][0]:r.mods[i][0]+r.mods[i][1]], r.good[r.mods[j][0]:r.mods[j][0]+r.mods[j][1]]) {
				continue
			}
			cases++
			r.c.Probe("wide-swaps-256-apart")
			if v := r.run1(C18Case{Kind: "swap-ordinals-256-apart", A: i, B: j}); v != nil {
				return v
			}
		}
	}
	for k := 0; k < 6; k++ {
		if v := r.run1(C18Case{Kind: "flip", Off: int64(rng.Uint64() % uint64(len(r.good))), Bit: rng.Intn(8)}); v != nil {
			return v
		}
	}
	return nil
}

// otherReaders reads the untampered file the ways the full read does not: the
// seek history on a file opened without its page index, and the row groups
// handed to WriteRowGroup of another writer (plain, and encrypting with other
// keys): what comes out must hold the rows and, in the plain case, be readable
// without any key.
func (r *c18run) otherReaders() (v *core.Violation) {
	sc := r.sc
	model := r.data.Rows()
	defer func() {
		if p := recover(); p != nil {
			v = core.Violate("C18/panic/other-readers", "panic: %v%s", p, core.StackIfWanted())
		}
	}()
	fo := sc.F
	fo.SkipPageIndex, fo.Async = true, false
	sf := env.NewFile(r.c, r.good)
	f, err := parquet.OpenFile(sf, sf.Size(), append(fo.Options(), parquet.WithDecryption(r.keys))...)
	if err != nil {
		return core.Violate("C18/roundtrip/error-with-right-keys", "open without page index: %v", err)
	}
	rd := parquet.NewReader(f)
	back, served := 0, 0
	hv := c08RowOps(r.c, "encrypted-reader-without-index", rd, model, sc.Seeks, &back, &served)
	rd.Close()
	if hv != nil {
		if strings.Contains(hv.Class, "read-error") || strings.Contains(hv.Class, "seek-error") {
			return core.Violate("C18/roundtrip/error-with-right-keys", "seek history on a file opened without page index: %s", hv.Detail)
		}
		hv.Class = "C18/roundtrip/" + lastSeg(hv.Class)
		return hv
	}
	if sc.Mode == "rowgroup-writers" || r.sh.HasMap() {
		return nil
	}
	// rewriting: the source's modules must not be spliced into a file they do not belong to
	for _, target := range []string{"plain", "encrypted"} {
		e := &gen.Env{Ctx: r.c}
		sink, face := env.NewSink(r.c, env.SinkFaces{}, nil)
		w2opts := sc.Plan.W.Options(e)
		var keys2 *keyRing
		if target == "encrypted" {
			keys2 = &keyRing{footer: bytes.Repeat([]byte{0x42}, 16), cols: map[string][]byte{}}
			w2opts = append(w2opts, parquet.WithEncryption(&parquet.EncryptionConfig{FooterKey: keys2.footer, EncryptedFooter: sc.EncryptedFooter, FileIdentifier: []byte("rewrite1")}))
		}
		w2 := parquet.NewWriter(face, append([]parquet.WriterOption{r.sh.Schema()}, w2opts...)...)
		for _, rg := range f.RowGroups() {
			if _, err := w2.WriteRowGroup(rg); err != nil {
				return core.Violate("C18/rewrite/write-error/"+target, "WriteRowGroup of a decrypted row group: %v", err)
			}
		}
		if err := w2.Close(); err != nil {
			return core.Violate("C18/rewrite/write-error/"+target, "Close: %v", err)
		}
		var ropts []parquet.FileOption
		if keys2 != nil {
			ropts = append(ropts, parquet.WithDecryption(keys2))
		}
		out := sink.Bytes()
		f2, err := parquet.OpenFile(bytes.NewReader(out), int64(len(out)), ropts...)
		if err != nil {
			return core.Violate("C18/rewrite/unreadable/"+target, "the file written from the decrypted row groups does not open: %v", err)
		}
		pos := 0
		for _, rg := range f2.RowGroups() {
			rows, dv := drainRows(rg.Rows())
			if dv != nil {
				return core.Violate("C18/rewrite/unreadable/"+target, "reading the file written from the decrypted row groups: %s", dv.Detail)
			}
			for _, row := range rows {
				if pos >= len(model) {
					return core.Violate("C18/rewrite/wrong-data/"+target, "more rows than were written")
				}
				if d := gen.RowDiff(model[pos], row); d != "" {
					return core.Violate("C18/rewrite/wrong-data/"+target, "row %d: %s", pos, d)
				}
				pos++
			}
		}
		if pos != len(model) {
			return core.Violate("C18/rewrite/wrong-data/"+target, "%d of %d rows", pos, len(model))
		}
		r.c.Probe("rewrites-" + target)
	}
	return nil
}
