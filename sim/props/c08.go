package props

import (
	"bytes"
	"errors"
	"fmt"
	"io"
	"pqsim/env"
	"pqsim/sched"
	"strings"

	"github.com/parquet-go/parquet-go"

	"pqsim/core"
	"pqsim/gen"
	"pqsim/tape"
)

// C08 — seeking to a row then reading equals skipping to that row
// sequentially (E1 history against a cursor model; async mode under E3).

type SeekOp struct {
	Op string `json:"op"` // seek | read | page | index
	K  int64  `json:"k,omitempty"`
	N  int    `json:"n,omitempty"`
}

type C08Scenario struct {
	Plan      WritePlan  `json:"plan"`
	Pools     PoolPolicy `json:"pools"`
	F         gen.FOpts  `json:"file_opts"`
	Subject   string     `json:"subject"` // rowgroup | reader | generic | multi | pages | values | buffer
	RowGroup  int        `json:"row_group"`
	Column    int        `json:"column"`
	Ops       []SeekOp   `json:"ops"`
	SchedSeed uint64     `json:"sched_seed,omitempty"`
	Sched     []int      `json:"sched,omitempty"`
}

func (s *C08Scenario) SchedPtr() *[]int { return &s.Sched }

var c08Subjects = []string{"rowgroup", "reader", "generic", "multi", "pages", "values", "buffer", "rgreader", "merged-pages", "column-pages"}

type C08 struct{}

func (C08) ID() string { return "C08" }

func (C08) Info() core.Info {
	return core.Info{
		Level: "exploration",
		Rule: "one run = one seeded file (writer history + option swarm: page versions, tiny pages, several row groups, dictionary columns, nested columns, read buffer sizes, with/without page index) and a seeded history of SeekToRow(k)/ReadRows(n)/ReadPage/ReadValues(n)/OffsetIndex() operations on one of eight subjects (FileRowGroup.Rows, Reader, GenericReader, MultiRowGroup.Rows, ColumnChunk.Pages, ColumnChunkValueReader, GenericBuffer.Rows, NewGenericRowGroupReader), checked operation by operation against a cursor over the row list. " +
			"distinct = distinct (file signature, subject, op-kind sequence); non-trivial = the history has >= 1 backward seek and >= 1 read that returned rows after a seek, on a file with >= 2 pages in some column",
		Real:   []string{"parquet-go writer, file/page/row readers, buffers (all real code from /repo)"},
		Stubs:  []string{"source io.ReaderAt (SimFile)", "destination io.Writer (SimSink)", "page BufferPool (SimBufferPool)", "internal/memory.Pool (deterministic H1/H2)"},
		Assume: []string{"SeekToRow targets are within [0, NumRows]", "RowReader may return short reads; progress is demanded within 8 consecutive calls"},
	}
}

func (C08) Budget(tier string) core.Budget {
	if tier == "thorough" {
		return core.Budget{Runs: 80000, MaxWall: 20 * 60e9, Race: 8000}
	}
	return core.Budget{Runs: 3500, MaxWall: 35e9, Race: 200}
}

func (C08) New() any { return &C08Scenario{} }

func (C08) Gen(t *tape.Tape, tier string) any {
	sc := &C08Scenario{}
	shapes := []gen.Shape{gen.ShapeFlat, gen.ShapeNested, gen.ShapeLogical, gen.ShapeDyn, gen.ShapeGen}
	sc.Plan = GenWritePlan(t, shapes, 1500)
	if sc.Plan.NRows < 2 {
		sc.Plan.NRows = 2 + t.Draw(50)
		sc.Plan.Ops = genOps(t, sc.Plan.NRows)
	}
	sc.Pools = GenPoolPolicy(t)
	sc.F = gen.GenFOpts(t)
	sc.F.SkipPageIndex = t.Bool()
	sc.Subject = c08Subjects[t.Draw(len(c08Subjects))]
	if t.Chance(1, 5) {
		sc.F.Async = true
		sc.F.Optimistic = false
		sc.SchedSeed = t.Seed()
	}
	sc.RowGroup = t.Draw(4)
	sc.Column = t.Draw(16)
	sc.Ops = genSeekOps(t, int64(sc.Plan.NRows), t.Range(3, 30))
	if sc.F.SkipPageIndex {
		// the offset index appears in the middle of the history (with SkipPageIndex
		// it is loaded by whoever asks first): seek and read without it, load it,
		// seek a little further - often into the page after the one just read
		if t.Bool() {
			sc.Subject = []string{"pages", "values"}[t.Draw(2)]
		}
		k := int64(t.Draw(sc.Plan.NRows + 1))
		pre := []SeekOp{{Op: "seek", K: k}, {Op: "read", N: []int{1, 7, 64}[t.Draw(3)]}, {Op: "index"}}
		k2 := min(k+int64([]int{1, 2, 3, 5, 8, 13, 20, 40, 64, 65, 70, 100, 130, 200, 400}[t.Draw(15)]), int64(sc.Plan.NRows))
		pre = append(pre, SeekOp{Op: "seek", K: k2}, SeekOp{Op: "read", N: 7})
		sc.Ops = append(pre, sc.Ops...)
	}
	return sc
}

// columnAsChunk lets the column chunk history run on Column.Pages().
type columnAsChunk struct {
	parquet.ColumnChunk
	col *parquet.Column
}

func (c columnAsChunk) Pages() parquet.Pages { return c.col.Pages() }

// genSeekOps draws a seek/read history over n rows.
func genSeekOps(t *tape.Tape, n int64, nops int) []SeekOp {
	var ops []SeekOp
	for i := 0; i < nops; i++ {
		switch t.Weighted(5, 5, 1, 1) {
		case 3:
			ops = append(ops, SeekOp{Op: "reset"})
		case 0:
			var k int64
			switch t.Weighted(4, 1, 1, 2) {
			case 0:
				k = int64(t.Draw(int(n) + 1))
			case 1:
				k = 0
			case 2:
				k = n
			case 3: // near the previous target
				if len(ops) > 0 {
					k = ops[len(ops)-1].K + int64(t.Range(-20, 20))
				}
				if k < 0 {
					k = 0
				}
				if k > n {
					k = n
				}
			}
			ops = append(ops, SeekOp{Op: "seek", K: k})
		case 1:
			ops = append(ops, SeekOp{Op: "read", N: []int{1, 2, 7, 20, 45, 64, 100, 300, 0}[t.Draw(9)]})
		case 2:
			ops = append(ops, SeekOp{Op: "index"})
		}
	}
	return ops
}

func (C08) Run(s any, c *core.Ctx) core.Outcome {
	sc := s.(*C08Scenario)
	out := core.Outcome{}
	sc.Pools.Install()
	sh, data := sc.Plan.MakeData()
	model := data.Rows()
	opsig := ""
	for _, op := range sc.Ops {
		opsig += op.Op[:1]
	}
	out.Sig = fmt.Sprintf("%s|%s|%s|%s", sc.Plan.Shape, sc.Plan.W.Sig(), sc.Subject, opsig)

	if sc.Subject == "merged-pages" {
		return c08MergedPages(sc, c)
	}
	if sc.Subject == "buffer" {
		buf := sh.NewBuffer(gen.BGeneric)
		if _, err := buf.Write(data, 0, data.Len()); err != nil {
			out.Violation = core.Violate("C08/buffer-write-error", "%v", err)
			return out
		}
		rows := buf.Rows()
		defer rows.Close()
		back, served := 0, 0
		out.Violation = c08RowOps(c, "buffer", rows, model, sc.Ops, &back, &served)
		out.Nontrivial = back > 0 && served > 0
		out.Sample = map[string]any{"subject": sc.Subject, "rows": len(model), "ops": len(sc.Ops)}
		return out
	}

	res := sc.Plan.Execute(c, nil, data)
	if res.FirstErr != nil {
		out.Violation = core.Violate("C08/fault-free-write-error/"+res.ErrOp, "%v", res.FirstErr)
		return out
	}
	fileBytes := res.Sink.Bytes()
	back, served, maxPages, nrgs := 0, 0, 0, 0
	var rgs []parquet.RowGroup
	readPart := func(reader io.ReaderAt) {
		f, err := parquet.OpenFile(reader, int64(len(fileBytes)), sc.F.Options()...)
		if err != nil {
			out.Violation = core.Violate("C08/open-error", "%v", err)
			return
		}
		rgs := f.RowGroups()
		if len(rgs) == 0 {
			return
		}
		// page counts for the non-triviality measure come from another File value:
		// asking the file under test would load its offset indexes, and with
		// SkipPageIndex their lazy loading in the middle of a history is an input
		maxPages = 0
		if pf, err := parquet.OpenFile(bytes.NewReader(fileBytes), int64(len(fileBytes))); err == nil {
			for _, rg := range pf.RowGroups() {
				for _, cc := range rg.ColumnChunks() {
					if oi, err := cc.OffsetIndex(); err == nil && oi != nil && oi.NumPages() > maxPages {
						maxPages = oi.NumPages()
					}
				}
			}
		}
		g := sc.RowGroup % len(rgs)
		rgFirst := 0
		for i := 0; i < g; i++ {
			rgFirst += int(rgs[i].NumRows())
		}
		rgModel := model[rgFirst : rgFirst+int(rgs[g].NumRows())]
		clampOps := func(n int) []SeekOp {
			ops := make([]SeekOp, len(sc.Ops))
			copy(ops, sc.Ops)
			for i := range ops {
				if ops[i].K > int64(n) {
					ops[i].K = int64(n) - (ops[i].K-int64(n))%int64(n+1)
					if ops[i].K < 0 {
						ops[i].K = 0
					}
				}
			}
			return ops
		}
		switch sc.Subject {
		case "rowgroup":
			rows := rgs[g].Rows()
			out.Violation = c08RowOps(c, "rowgroup", rows, rgModel, clampOps(len(rgModel)), &back, &served)
			rows.Close()
		case "rgreader":
			r := parquet.NewRowGroupReader(rgs[g])
			out.Violation = c08RowOps(c, "rgreader", r, rgModel, clampOps(len(rgModel)), &back, &served)
			r.Close()
		case "reader":
			r := parquet.NewReader(f)
			out.Violation = c08RowOps(c, "reader", r, model, sc.Ops, &back, &served)
			r.Close()
		case "multi":
			rows := parquet.MultiRowGroup(rgs...).Rows()
			out.Violation = c08RowOps(c, "multi", rows, model, sc.Ops, &back, &served)
			rows.Close()
		case "generic":
			r := sh.NewReader(f)
			out.Violation = c08TypedOps(c, sh, data, r, model, sc.Ops, &back, &served)
			r.Close()
		case "pages", "values":
			ccs := rgs[g].ColumnChunks()
			ci := sc.Column % len(ccs)
			out.Violation = c08ColumnOps(c, sc.Subject, ccs[ci], ci, rgModel, clampOps(len(rgModel)), &back, &served)
		case "column-pages":
			// Column.Pages(): one page reader over the column's chunks of all row groups
			paths := f.Schema().Columns()
			ci := sc.Column % len(paths)
			col := f.Root()
			for _, name := range paths[ci] {
				if col = col.Column(name); col == nil {
					break
				}
			}
			if col == nil {
				break
			}
			out.Violation = c08ColumnOps(c, "pages", columnAsChunk{ColumnChunk: rgs[0].ColumnChunks()[ci], col: col}, ci, model, sc.Ops, &back, &served)
			if out.Violation != nil {
				out.Violation.Class += "/column"
			}
		}

		nrgs = len(rgs)
	}
	if sc.F.Async {
		// asynchronous read mode: the library's page goroutines park at every
		// ReadAt of the gated file; the seeded scheduler picks who proceeds
		c.Unstable()
		var S *sched.S
		gf := &gatedFile{data: fileBytes, s: &S, eof: sc.F.EOFAtEnd}
		var replay []int
		if sc.Sched != nil {
			replay = sc.Sched
		}
		dec := sched.NewDecisions(sc.SchedSeed, replay)
		sres := sched.Run(core.T, dec, 60000, nil, func(s *sched.S) { S = s }, []func(*sched.S){func(*sched.S) { readPart(gf) }}, nil)
		sc.Sched = sres.Decisions
		c.Inter = sres.Inter
		c.Steps += sres.Steps
		c.ProbeN("sched-decisions", sres.Steps)
		c.Probe("async-runs")
		if out.Violation == nil && sres.Panic != nil {
			out.Violation = core.Violate("C08/panic/async/"+sc.Subject, "%v\n%s", sres.Panic, core.IfStack(sres.Stack))
		}
		if out.Violation == nil && sres.Deadlock != "" {
			out.Violation = core.Violate("C08/deadlock/async/"+sc.Subject, "%s after %d decisions", sres.Deadlock, sres.Steps)
		}
		if out.Violation != nil && !strings.Contains(out.Violation.Class, "/async") {
			out.Violation.Class += "/async"
		}
	} else {
		sf := env.NewFile(c, fileBytes)
		sf.EOFAtEnd = sc.F.EOFAtEnd
		readPart(sf)
	}
	if out.Violation != nil {
		return out
	}
	_ = rgs
	out.Nontrivial = back > 0 && served > 0 && maxPages >= 2
	out.Sample = map[string]any{"subject": sc.Subject, "shape": sc.Plan.Shape, "rows": len(model), "row_groups": nrgs, "max_pages": maxPages, "ops": sc.Ops, "opts": sc.Plan.W.Sig()}
	return out
}

type rowSeekReader interface {
	parquet.RowReader
	SeekToRow(int64) error
}

// c08RowOps applies seek/read ops to a row reader against the cursor model.
func c08RowOps(c *core.Ctx, subject string, r rowSeekReader, model []parquet.Row, ops []SeekOp, back, served *int) *core.Violation {
	cursor := 0
	stalls := 0
	seeked := false
	hist := ""
	for i, op := range ops {
		c.Step()
		switch op.Op {
		case "reset":
			if rs, ok := r.(interface{ Reset() }); ok {
				hist += " reset"
				rs.Reset()
				if cursor > 0 {
					*back++
				}
				cursor = 0
				seeked = true
				stalls = 0
				c.Event("reset")
			}
		case "seek":
			hist += fmt.Sprintf(" seek%d", op.K)
			if err := r.SeekToRow(op.K); err != nil {
				return core.Violate("C08/seek-error/"+subject, "op %d:%s: SeekToRow(%d) on %d rows: %v", i, hist, op.K, len(model), err)
			}
			if int(op.K) < cursor {
				*back++
			}
			cursor = int(op.K)
			seeked = true
			stalls = 0
			c.Event("seek %d", op.K)
		case "read":
			hist += fmt.Sprintf(" read%d", op.N)
			buf := make([]parquet.Row, op.N)
			m, err := r.ReadRows(buf)
			c.Event("read %d -> %d %v", op.N, m, err)
			if m < 0 || m > op.N {
				return core.Violate("C08/bad-count/"+subject, "op %d:%s: ReadRows returned %d for a buffer of %d", i, hist, m, op.N)
			}
			for j := 0; j < m; j++ {
				if cursor+j >= len(model) {
					return core.Violate("C08/rows-after-seek-differ/"+subject, "op %d:%s: row delivered beyond the %d rows of the subject (cursor %d)", i, hist, len(model), cursor)
				}
				if d := gen.RowDiff(model[cursor+j], buf[j]); d != "" {
					return core.Violate("C08/rows-after-seek-differ/"+subject, "op %d:%s: expected row %d: %s", i, hist, cursor+j, d)
				}
			}
			cursor += m
			if m > 0 && seeked {
				*served++
			}
			if err != nil {
				if !errors.Is(err, io.EOF) {
					return core.Violate("C08/read-error/"+subject, "op %d:%s: %v", i, hist, err)
				}
				if cursor != len(model) {
					return core.Violate("C08/early-eof/"+subject, "op %d:%s: io.EOF at row %d of %d", i, hist, cursor, len(model))
				}
			}
			if m == 0 && err == nil && op.N > 0 {
				if stalls++; stalls >= 8 {
					return core.Violate("C08/no-progress/"+subject, "op %d:%s: 8 consecutive (0, nil) reads at row %d of %d", i, hist, cursor, len(model))
				}
			} else {
				stalls = 0
			}
		}
	}
	return nil
}

func c08TypedOps(c *core.Ctx, sh gen.Shape, data gen.Data, r gen.TypedReader, model []parquet.Row, ops []SeekOp, back, served *int) *core.Violation {
	cursor := 0
	seeked := false
	hist := ""
	stalls := 0
	for i, op := range ops {
		c.Step()
		switch op.Op {
		case "reset":
			hist += " reset"
			r.Reset()
			if cursor > 0 {
				*back++
			}
			cursor = 0
			seeked = true
			stalls = 0
			c.Event("reset")
		case "seek":
			hist += fmt.Sprintf(" seek%d", op.K)
			if err := r.SeekToRow(op.K); err != nil {
				return core.Violate("C08/seek-error/generic", "op %d:%s: SeekToRow(%d): %v", i, hist, op.K, err)
			}
			if int(op.K) < cursor {
				*back++
			}
			cursor = int(op.K)
			seeked = true
			stalls = 0
			c.Event("seek %d", op.K)
		case "read":
			hist += fmt.Sprintf(" read%d", op.N)
			vals, rows, err := r.Read(op.N)
			c.Event("read %d -> %d %v", op.N, len(vals), err)
			for j := range vals {
				if cursor+j >= len(model) {
					return core.Violate("C08/rows-after-seek-differ/generic", "op %d:%s: value delivered beyond the %d rows", i, hist, len(model))
				}
				if d := gen.RowDiff(model[cursor+j], rows[j]); d != "" {
					return core.Violate("C08/rows-after-seek-differ/generic", "op %d:%s: expected row %d: %s", i, hist, cursor+j, d)
				}
				if !sh.EqualValues(data.Value(cursor+j), vals[j]) {
					return core.Violate("C08/rows-after-seek-differ/generic", "op %d:%s: typed value %d differs", i, hist, cursor+j)
				}
			}
			cursor += len(vals)
			if len(vals) > 0 && seeked {
				*served++
			}
			if err != nil {
				if !errors.Is(err, io.EOF) {
					return core.Violate("C08/read-error/generic", "op %d:%s: %v", i, hist, err)
				}
				if cursor != len(model) {
					return core.Violate("C08/early-eof/generic", "op %d:%s: io.EOF at row %d of %d", i, hist, cursor, len(model))
				}
			}
			if len(vals) == 0 && err == nil && op.N > 0 {
				if stalls++; stalls >= 8 {
					return core.Violate("C08/no-progress/generic", "op %d:%s: 8 consecutive (0, nil) reads at row %d", i, hist, cursor)
				}
			} else {
				stalls = 0
			}
		}
	}
	return nil
}

// c08ColumnOps drives ColumnChunk.Pages (ReadPage after SeekToRow) or the
// column chunk value reader against the model's values of one column.
func c08ColumnOps(c *core.Ctx, subject string, cc parquet.ColumnChunk, ci int, model []parquet.Row, ops []SeekOp, back, served *int) *core.Violation {
	// value index at which each row starts
	rowStart := make([]int, len(model)+1)
	var vals []parquet.Value
	for i, r := range model {
		rowStart[i] = len(vals)
		for _, v := range r {
			if v.Column() == ci {
				vals = append(vals, v)
			}
		}
	}
	rowStart[len(model)] = len(vals)
	return c08ColumnOpsVals(c, subject, cc, vals, rowStart, ops, back, served)
}

// c08ColumnOpsVals is c08ColumnOps with the model given as the column's value
// sequence and the value index at which each row starts.
func c08ColumnOpsVals(c *core.Ctx, subject string, cc parquet.ColumnChunk, vals []parquet.Value, rowStart []int, ops []SeekOp, back, served *int) *core.Violation {
	model := make([]struct{}, len(rowStart)-1) // only its length is used below
	hist := ""
	seeked := false
	if subject == "pages" {
		pages := cc.Pages()
		defer pages.Close()
		cursor := 0 // row
		for i, op := range ops {
			c.Step()
			switch op.Op {
			case "index":
				hist += " index"
				if _, err := cc.OffsetIndex(); err != nil && !errors.Is(err, parquet.ErrMissingOffsetIndex) {
					return core.Violate("C08/index-error/pages", "op %d:%s: OffsetIndex: %v", i, hist, err)
				}
			case "seek":
				hist += fmt.Sprintf(" seek%d", op.K)
				if err := pages.SeekToRow(op.K); err != nil {
					return core.Violate("C08/seek-error/pages", "op %d:%s: SeekToRow(%d): %v", i, hist, op.K, err)
				}
				if int(op.K) < cursor {
					*back++
				}
				cursor = int(op.K)
				seeked = true
				c.Event("seek %d", op.K)
			case "read":
				hist += " page"
				p, err := pages.ReadPage()
				if err != nil {
					if !errors.Is(err, io.EOF) {
						return core.Violate("C08/read-error/pages", "op %d:%s: ReadPage: %v", i, hist, err)
					}
					if cursor != len(model) {
						return core.Violate("C08/early-eof/pages", "op %d:%s: io.EOF at row %d of %d", i, hist, cursor, len(model))
					}
					c.Event("page -> EOF")
					continue
				}
				nr, nv := int(p.NumRows()), int(p.NumValues())
				c.Event("page rows=%d values=%d", nr, nv)
				if cursor+nr > len(model) {
					parquet.Release(p)
					return core.Violate("C08/rows-after-seek-differ/pages", "op %d:%s: page of %d rows at row %d exceeds the %d rows", i, hist, nr, cursor, len(model))
				}
				got := make([]parquet.Value, nv)
				n, rerr := p.Values().ReadValues(got)
				if n != nv || (rerr != nil && !errors.Is(rerr, io.EOF)) {
					parquet.Release(p)
					return core.Violate("C08/page-values/pages", "op %d:%s: page claims %d values, ReadValues gave %d, %v", i, hist, nv, n, rerr)
				}
				want := vals[rowStart[cursor]:rowStart[cursor+nr]]
				if len(want) != nv {
					parquet.Release(p)
					return core.Violate("C08/rows-after-seek-differ/pages", "op %d:%s: page at row %d has %d rows and %d values; the model has %d values for those rows (page does not start at the seeked row?)", i, hist, cursor, nr, nv, len(want))
				}
				for j := range want {
					if !gen.ValueEqual(want[j], got[j]) {
						parquet.Release(p)
						return core.Violate("C08/rows-after-seek-differ/pages", "op %d:%s: page at row %d value %d: got %s want %s", i, hist, cursor, j, gen.FmtValue(got[j]), gen.FmtValue(want[j]))
					}
				}
				parquet.Release(p)
				cursor += nr
				if seeked && nr > 0 {
					*served++
				}
			}
		}
		return nil
	}
	// values
	vr := parquet.NewColumnChunkValueReader(cc)
	defer vr.Close()
	vcur := 0
	stalls := 0
	for i, op := range ops {
		c.Step()
		switch op.Op {
		case "seek":
			hist += fmt.Sprintf(" seek%d", op.K)
			if err := vr.SeekToRow(op.K); err != nil {
				return core.Violate("C08/seek-error/values", "op %d:%s: SeekToRow(%d): %v", i, hist, op.K, err)
			}
			if rowStart[op.K] < vcur {
				*back++
			}
			vcur = rowStart[op.K]
			seeked = true
			stalls = 0
			c.Event("seek %d", op.K)
		case "read":
			if op.N == 0 {
				continue // a zero-length ReadValues is not something the property speaks about
			}
			hist += fmt.Sprintf(" read%d", op.N)
			buf := make([]parquet.Value, op.N)
			m, err := vr.ReadValues(buf)
			c.Event("readvalues %d -> %d %v", op.N, m, err)
			for j := 0; j < m; j++ {
				if vcur+j >= len(vals) {
					return core.Violate("C08/rows-after-seek-differ/values", "op %d:%s: value beyond the %d values of the column", i, hist, len(vals))
				}
				if !gen.ValueEqual(vals[vcur+j], buf[j]) {
					return core.Violate("C08/rows-after-seek-differ/values", "op %d:%s: value %d: got %s want %s", i, hist, vcur+j, gen.FmtValue(buf[j]), gen.FmtValue(vals[vcur+j]))
				}
			}
			vcur += m
			if m > 0 && seeked {
				*served++
			}
			if err != nil {
				if !errors.Is(err, io.EOF) {
					return core.Violate("C08/read-error/values", "op %d:%s: %v", i, hist, err)
				}
				if vcur != len(vals) {
					return core.Violate("C08/early-eof/values", "op %d:%s: io.EOF at value %d of %d", i, hist, vcur, len(vals))
				}
			}
			if m == 0 && err == nil && op.N > 0 {
				if stalls++; stalls >= 8 {
					return core.Violate("C08/no-progress/values", "op %d:%s: no progress at value %d", i, hist, vcur)
				}
			} else {
				stalls = 0
			}
		}
	}
	return nil
}

// c08MergedPages seeks and reads the pages of a column of a merged row group
// whose segments are row-range views (merge of partially overlapping sorted
// files): the views' SeekToRow is only reachable this way.
func c08MergedPages(sc *C08Scenario, c *core.Ctx) core.Outcome {
	out := core.Outcome{}
	sortCols := gen.SortingColumns(sortSpecs[0])
	cmp := keyedSchema.Comparator(sortCols...)
	nin := 2 + sc.RowGroup%2
	var rgs []parquet.RowGroup
	for i := 0; i < nin; i++ {
		typed, _ := keyedInput(sc.Plan.RowSeed, "partial", i, nin, 1300+100*i, cmp)
		sink, face := env.NewSink(c, env.SinkFaces{}, nil)
		w := parquet.NewGenericWriter[gen.Keyed](face, parquet.PageBufferSize(64), parquet.SortingWriterConfig(parquet.SortingColumns(sortCols...)))
		if _, err := w.Write(typed); err != nil {
			out.Violation = core.Violate("C08/fault-free-write-error/write", "%v", err)
			return out
		}
		if err := w.Close(); err != nil {
			out.Violation = core.Violate("C08/fault-free-write-error/close", "%v", err)
			return out
		}
		sf := env.NewFile(c, sink.Bytes())
		f, err := parquet.OpenFile(sf, sf.Size())
		if err != nil {
			out.Violation = core.Violate("C08/open-error", "%v", err)
			return out
		}
		rgs = append(rgs, f.RowGroups()...)
	}
	merged, err := parquet.MergeRowGroups(rgs, parquet.SortingRowGroupConfig(parquet.SortingColumns(sortCols...)), keyedSchema)
	if err != nil {
		out.Violation = core.Violate("C08/merge-error", "%v", err)
		return out
	}
	ccs := merged.ColumnChunks()
	ci := sc.Column % len(ccs)
	// the model is this reader kind's own sequential read: the chunks of a merged
	// row group are the concatenation of its segments' chunks, which in truly
	// overlapping stretches is not the order of merged.Rows()
	seqVals, _, err := readColumnPages(ccs[ci], c)
	if err != nil && !errors.Is(err, io.EOF) {
		out.Violation = core.Violate("C08/read-error/merged-pages", "sequential read of the merged column chunk: %v", err)
		return out
	}
	var rowStart []int
	for i, v := range seqVals {
		if v.RepetitionLevel() == 0 {
			rowStart = append(rowStart, i)
		}
	}
	rowStart = append(rowStart, len(seqVals))
	n := int64(len(rowStart) - 1)
	ops := make([]SeekOp, len(sc.Ops))
	copy(ops, sc.Ops)
	for i := range ops {
		// spread the seek targets over the merged rows
		if ops[i].Op == "seek" && int64(sc.Plan.NRows) > 0 {
			ops[i].K = ops[i].K * n / int64(sc.Plan.NRows)
			if ops[i].K > n {
				ops[i].K = n
			}
		}
	}
	back, served := 0, 0
	out.Violation = c08ColumnOpsVals(c, "pages", ccs[ci], seqVals, rowStart, ops, &back, &served)
	if out.Violation != nil {
		out.Violation.Class += "/merged"
	}
	out.Nontrivial = back > 0 && served > 0
	out.Sig = fmt.Sprintf("merged-pages|%d|%d|%d", nin, ci, len(ops))
	out.Sample = map[string]any{"subject": sc.Subject, "inputs": nin, "rows": n, "column": ci, "ops": ops}
	return out
}
