package props

import (
	"fmt"
	"hash/fnv"
	"io"
	"math"
	"sort"

	"github.com/parquet-go/parquet-go"

	"pqsim/core"
	"pqsim/gen"
	"pqsim/tape"
)

// Keyed-row helpers shared by C09 (merge) and C10 (sort).

const (
	kcolK = iota
	kcolK2
	kcolF
	kcolSrc
	kcolSeq
	kcolPay
	kcolTags
	kcolSum
)

var keyedSchema = gen.ShapeKeyed.Schema()

// SortSpec names one of the sorting-column lists exercised.
type SortSpec struct {
	Cols []gen.SortCol `json:"cols"`
}

var sortSpecs = [][]gen.SortCol{
	{{Path: []string{"k"}}},
	{{Path: []string{"k"}, Desc: true}},
	{{Path: []string{"k2"}}},
	{{Path: []string{"k2"}, NullsFirst: true}},
	{{Path: []string{"k2"}, Desc: true}},
	{{Path: []string{"k2"}, Desc: true, NullsFirst: true}},
	{{Path: []string{"k"}}, {Path: []string{"k2"}, Desc: true}},
	{{Path: []string{"k2"}, NullsFirst: true}, {Path: []string{"k"}, Desc: true}},
	{{Path: []string{"f"}}},
	{{Path: []string{"pay"}, Desc: true}, {Path: []string{"k"}}},
	// two required columns: equal first-column keys across inputs are ordered by the second
	{{Path: []string{"k"}}, {Path: []string{"pay"}}},
	{{Path: []string{"k"}, Desc: true}, {Path: []string{"sum"}}},
	// a required sorting column that comes after the repeated column in the schema
	{{Path: []string{"sum"}}},
	{{Path: []string{"k2"}, NullsFirst: true}, {Path: []string{"sum"}, Desc: true}},
	// an optional leaf inside an optional group
	{{Path: []string{"g", "v"}}, {Path: []string{"k"}}},
	{{Path: []string{"g", "v"}, Desc: true, NullsFirst: true}},
}

func genSortSpec(t *tape.Tape) []gen.SortCol { return sortSpecs[t.Draw(len(sortSpecs))] }

func keyedSum(k gen.Keyed) uint64 {
	h := fnv.New64a()
	k2 := "<nil>"
	if k.K2 != nil {
		k2 = "=" + *k.K2
	}
	// Seq is not covered: it is assigned after the input is sorted, and Sum is itself a sorting key
	fmt.Fprintf(h, "%d|%s|%x|%d|%s|%v", k.K, k2, math.Float64bits(k.F), k.Src, k.Pay, k.Tags)
	return h.Sum64()
}

// makeKeyed builds one row from a key.
func makeKeyed(r *tape.Rng, key int64, src int32) gen.Keyed {
	k := gen.Keyed{K: key, Src: src, F: float64(key%17) / 2}
	if key%5 != 0 {
		// depends on the input too, so rows with equal first-column keys from
		// different inputs differ in the second sorting column
		s := fmt.Sprintf("s%02d", ((key%23)+23+int64(src)*5)%23)
		k.K2 = &s
	}
	// nulls of g.v sit at one definition level per input: group present and leaf
	// nil in even inputs, group nil in odd ones; the values follow the key, so
	// inputs with disjoint keys are disjoint in g.v as well
	if (key%7+7)%7 == 0 {
		if src%2 == 0 {
			k.G = &gen.KeyedG{}
		}
	} else {
		v := key
		k.G = &gen.KeyedG{V: &v}
	}
	k.Pay = gen.String(r, 1)
	if len(k.Pay) > 40 {
		k.Pay = k.Pay[:40]
	}
	if r.Intn(6) == 0 {
		// many rows sharing a prefix that a truncated column index bound cannot
		// be incremented past
		k.Pay = "\xff\xff\xff"[:1+r.Intn(3)] + k.Pay
	}
	for n := r.Intn(4); n > 0; n-- {
		k.Tags = append(k.Tags, int32(r.Intn(100)))
	}
	k.Sum = keyedSum(k)
	return k
}

// Key patterns for one input.
var keyPatterns = []string{"disjoint", "touching", "nested", "identical", "runs", "alternating", "dups", "random", "partial"}

// genKeys returns n keys for input i of k inputs according to a pattern.
func genKeys(r *tape.Rng, pattern string, i, k, n int) []int64 {
	keys := make([]int64, n)
	jitter := 0
	for j := range keys {
		switch pattern {
		case "disjoint":
			keys[j] = int64(i*10000 + j)
		case "touching":
			keys[j] = int64(i*n + j) // last key of input i+1 starts right after / equal
			if j == 0 && i > 0 {
				keys[j]--
			}
		case "nested":
			span := int64((k - i) * 100)
			keys[j] = int64(k*100) - span + int64(j)*2*span/int64(n+1)
		case "identical":
			keys[j] = int64(j)
		case "runs":
			// long runs from one input: blocks of 300 consecutive keys interleaved by input
			block := j / 300
			keys[j] = int64((block*k+i)*300 + j%300)
		case "alternating":
			keys[j] = int64(j*k + i)
		case "partial":
			// consecutive inputs overlap in a fifth of their key range and each
			// first-column key repeats a few times: long lone stretches (range
			// refinement), many pages starting exactly at a key boundary
			dup := 1 + (n/500)%3*2
			width := n / dup
			if j == 0 {
				jitter = r.Intn(width/8 + 1) // where the overlap starts relative to the other input's pages varies with the seed
			}
			keys[j] = int64(i*width*4/5 + jitter + j/dup)
		case "dups":
			keys[j] = int64(r.Intn(12))
		default:
			keys[j] = int64(r.Intn(4*n + 1))
		}
	}
	return keys
}

// keyedInput builds the sorted rows of one input: typed values and model rows.
func keyedInput(seed uint64, pattern string, i, k, n int, cmp func(parquet.Row, parquet.Row) int) ([]gen.Keyed, []parquet.Row) {
	r := tape.NewRng(tape.Mix(seed, i))
	keys := genKeys(r, pattern, i, k, n)
	vals := make([]gen.Keyed, n)
	for j := range vals {
		vals[j] = makeKeyed(r, keys[j], int32(i))
	}
	// sort by the library comparator (inputs must be sorted by the merge's columns)
	tmp := make([]parquet.Row, n)
	for j := range vals {
		tmp[j] = keyedSchema.Deconstruct(nil, vals[j])
	}
	idx := make([]int, n)
	for j := range idx {
		idx[j] = j
	}
	sort.SliceStable(idx, func(a, b int) bool { return cmp(tmp[idx[a]], tmp[idx[b]]) < 0 })
	sorted := make([]gen.Keyed, n)
	rows := make([]parquet.Row, n)
	for j, ix := range idx {
		sorted[j] = vals[ix]
		sorted[j].Seq = int64(j)
		rows[j] = keyedSchema.Deconstruct(nil, sorted[j])
	}
	return sorted, rows
}

// rowIdent extracts (src, seq) from a keyed row.
func rowIdent(row parquet.Row) (src int, seq int, ok bool) {
	src, seq = -1, -1
	for _, v := range row {
		switch v.Column() {
		case kcolSrc:
			src = int(v.Int32())
		case kcolSeq:
			seq = int(v.Int64())
		}
	}
	return src, seq, src >= 0 && seq >= 0
}

// simRowReader delivers rows in scripted chunk sizes.
type simRowReader struct {
	c        *core.Ctx
	id       int
	rows     []parquet.Row
	pos      int
	chunks   []int
	ci       int
	eofEarly bool  // return (k>0, io.EOF) with the last rows instead of a separate (0, io.EOF)
	err      error // injected error delivered at errAt
	errAt    int
}

func (r *simRowReader) ReadRows(buf []parquet.Row) (int, error) {
	if r.err != nil && r.pos >= r.errAt {
		return 0, r.err
	}
	if r.pos >= len(r.rows) {
		return 0, io.EOF
	}
	n := len(buf)
	if len(r.chunks) > 0 {
		c := r.chunks[r.ci%len(r.chunks)]
		r.ci++
		if c < n {
			n = c
		}
	}
	if n < 1 {
		n = 1
	}
	if n > len(buf) {
		n = len(buf)
	}
	if n == 0 {
		return 0, nil
	}
	if rem := len(r.rows) - r.pos; n > rem {
		n = rem
	}
	if r.err != nil && r.pos+n > r.errAt {
		n = r.errAt - r.pos
	}
	for i := 0; i < n; i++ {
		buf[i] = append(buf[i][:0], r.rows[r.pos+i]...)
	}
	r.pos += n
	if r.pos >= len(r.rows) && r.eofEarly && r.err == nil {
		return n, io.EOF
	}
	return n, nil
}

func (r *simRowReader) Schema() *parquet.Schema { return keyedSchema }
