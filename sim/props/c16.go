package props

import (
	"errors"
	"fmt"
	"io"

	"github.com/parquet-go/parquet-go"

	"pqsim/core"
	"pqsim/env"
	"pqsim/gen"
	"pqsim/tape"
)

// C16 — values handed to the caller are not changed by later library
// activity (E1 history + H2 poison-on-release + H1 immediate LIFO reuse).

type C16Op struct {
	Op string `json:"op"` // read | seek | churn | reset
	N  int    `json:"n,omitempty"`
	K  int64  `json:"k,omitempty"`
}

type C16Scenario struct {
	Plan    WritePlan  `json:"plan"`
	Pools   PoolPolicy `json:"pools"`
	F       gen.FOpts  `json:"file_opts"`
	Subject string     `json:"subject"` // generic | rows | reader | readall | rgreader
	Ops     []C16Op    `json:"ops"`
	Churn   WritePlan  `json:"churn"`
}

var c16Subjects = []string{"generic", "rows", "reader", "readall", "rgreader"}

type C16 struct{}

func (C16) ID() string { return "C16" }

func (C16) Info() core.Info {
	return core.Info{
		Level: "exploration",
		Rule: "one run = one seeded file (byte-array, fixed-length, dictionary and nested columns emphasised) read through GenericReader.Read, Read[T], RowGroup.Rows().ReadRows or Reader.ReadRows under a seeded history of further reads, seeks, Reset, Close and churn (an unrelated writer and readers run to completion in between, so every pool bucket the first reader used is released and re-acquired). The deterministic pool hands released objects out again immediately (LIFO) and overwrites released slice memory with 0xDB at the moment of release, so a dangling alias changes value deterministically. " +
			"Oracle: typed values returned by Read equal the written values at every later point incl. after Close; Rows returned by ReadRows equal the written rows until the next call on the same reader (checked right before it, after the churn); clones equal them forever; rows and values passed to Write are unchanged after Write, Flush and Close. distinct = distinct (shape, options, subject, op kinds) signatures; non-trivial = >= 1 value held across >= 1 later read or churn, with poison enabled",
		Real:   []string{"parquet-go readers, page buffers, reference counted buffers, writer (all real code from /repo)"},
		Stubs:  []string{"source io.ReaderAt (SimFile)", "destination io.Writer (SimSink)", "internal/memory.Pool (deterministic H1 pool, poison-on-release H2)"},
		Assume: []string{"an alias into pooled memory is only visible once that memory is released and poisoned or reused; memory that is never released (left to the GC) cannot change and is not a violation"},
	}
}

func (C16) Budget(tier string) core.Budget {
	if tier == "thorough" {
		return core.Budget{Runs: 40000, MaxWall: 15 * 60e9}
	}
	return core.Budget{Runs: 3000, MaxWall: 45e9}
}

func (C16) New() any { return &C16Scenario{} }

func (C16) Gen(t *tape.Tape, tier string) any {
	sc := &C16Scenario{}
	shapes := []gen.Shape{gen.ShapeFlat, gen.ShapeNested, gen.ShapeLogical, gen.ShapeDyn, gen.ShapeGen}
	sc.Plan = GenWritePlan(t, shapes, 800)
	if sc.Plan.NRows < 4 {
		sc.Plan.NRows = 4 + t.Draw(60)
		sc.Plan.Ops = genOps(t, sc.Plan.NRows)
	}
	sc.Pools = GenPoolPolicy(t)
	if !t.Chance(1, 8) {
		sc.Pools.Poison = true
		sc.Pools.Mode = 0
	}
	sc.F = gen.GenFOpts(t)
	sc.Subject = c16Subjects[t.Draw(len(c16Subjects))]
	nops := t.Range(2, 14)
	for i := 0; i < nops; i++ {
		switch t.Weighted(6, 2, 3, 1) {
		case 0:
			sc.Ops = append(sc.Ops, C16Op{Op: "read", N: []int{1, 3, 10, 64, 200}[t.Draw(5)]})
		case 1:
			sc.Ops = append(sc.Ops, C16Op{Op: "seek", K: int64(t.Draw(sc.Plan.NRows + 1))})
		case 2:
			sc.Ops = append(sc.Ops, C16Op{Op: "churn"})
		case 3:
			sc.Ops = append(sc.Ops, C16Op{Op: "reset"})
		}
	}
	sc.Churn = GenWritePlan(t, shapes, 300)
	return sc
}

type heldTyped struct {
	pos int
	val any
}

type heldRow struct {
	pos int
	row parquet.Row
}

func (C16) Run(s any, c *core.Ctx) core.Outcome {
	sc := s.(*C16Scenario)
	out := core.Outcome{}
	sc.Pools.Install()
	sh, data := sc.Plan.MakeData()
	_, pristine := sc.Plan.MakeData()
	model := pristine.Rows()

	// writer side: what the caller passed must be unchanged after Write/Flush/Close
	res := sc.Plan.Execute(c, nil, data)
	if res.FirstErr != nil {
		out.Violation = core.Violate("C16/fault-free-write-error/"+res.ErrOp, "%v", res.FirstErr)
		return out
	}
	for i := 0; i < data.Len(); i++ {
		if !sh.EqualValues(pristine.Value(i), data.Value(i)) {
			out.Violation = core.Violate("C16/writer-modified-input/"+sc.Plan.WriterKind, "value %d passed to Write differs after Close", i)
			return out
		}
		if d := gen.RowDiff(model[i], data.Rows()[i]); d != "" {
			out.Violation = core.Violate("C16/writer-modified-input/"+sc.Plan.WriterKind, "row %d passed to WriteRows differs after Close: %s", i, d)
			return out
		}
	}
	fileBytes := res.Sink.Bytes()
	if v := c16KeptRows(c, sh, pristine); v != nil {
		out.Violation = v
		return out
	}
	if v := c16MapRows(c, sh, fileBytes, len(model)); v != nil {
		out.Violation = v
		return out
	}
	if v := c16MapRowsFromBuffer(sh, pristine, sc.Churn); v != nil {
		out.Violation = v
		return out
	}

	churn := func() *core.Violation {
		// an unrelated writer and reader run to completion
		cd := sc.Churn
		r2 := cd.Execute(c, nil, nil)
		if r2.FirstErr != nil {
			return core.Violate("C16/churn-write-error", "%v", r2.FirstErr)
		}
		sf := env.NewFile(c, r2.Sink.Bytes())
		dres := drive(c, "C16", sf, gen.FOpts{}, "rowgroups", r2.Shape, r2.Data, &batches{})
		if dres.Wrong != nil || dres.Err != nil || !dres.Complete {
			return core.Violate("C16/churn-read-error", "wrong=%v err=%v complete=%v", dres.Wrong, dres.Err, dres.Complete)
		}
		c.Probe("churn")
		return nil
	}

	var typed []heldTyped
	var clones []heldRow
	var lastRows []heldRow // rows of the most recent ReadRows on the subject
	heldAcross := 0
	checkTyped := func(when string) *core.Violation {
		for _, h := range typed {
			if !sh.EqualValues(pristine.Value(h.pos), h.val) {
				return core.Violate("C16/typed-value-changed/"+sc.Subject, "value of row %d returned by Read changed %s: now %s", h.pos, when, trunc(fmt.Sprintf("%+v", h.val)))
			}
			if !sh.HasMap() {
				if d := gen.RowDiff(model[h.pos], sh.Deconstruct(h.val)); d != "" {
					return core.Violate("C16/typed-value-changed/"+sc.Subject, "value of row %d returned by Read changed %s: %s", h.pos, when, d)
				}
			}
		}
		return nil
	}
	checkLastRows := func(when string) *core.Violation {
		for _, h := range lastRows {
			if d := gen.RowDiff(model[h.pos], h.row); d != "" {
				return core.Violate("C16/row-changed-before-next-call/"+sc.Subject, "row %d returned by ReadRows changed %s, before the next call on the same reader: %s", h.pos, when, d)
			}
		}
		return nil
	}
	checkClones := func(when string) *core.Violation {
		for _, h := range clones {
			if d := gen.RowDiff(model[h.pos], h.row); d != "" {
				return core.Violate("C16/clone-changed/"+sc.Subject, "clone of row %d changed %s: %s", h.pos, when, d)
			}
		}
		return nil
	}

	sf, f, err := openFile(c, fileBytes, sc.F)
	if err != nil {
		out.Violation = core.Violate("C16/open-error", "%v", err)
		return out
	}
	rgs := f.RowGroups()
	subjectModelOff := 0
	subjectRows := len(model)
	var rr rowSeekReader
	var tr gen.TypedReader
	var closer func() error
	var resetter func()
	switch sc.Subject {
	case "generic":
		tr = sh.NewReader(sf)
		closer, resetter = tr.Close, tr.Reset
	case "readall":
	case "rows":
		if len(rgs) == 0 {
			return out
		}
		rows := rgs[0].Rows()
		subjectRows = int(rgs[0].NumRows())
		rr, closer = rows, rows.Close
	case "rgreader":
		if len(rgs) == 0 {
			return out
		}
		r := parquet.NewRowGroupReader(rgs[0])
		subjectRows = int(rgs[0].NumRows())
		rr, closer, resetter = r, r.Close, r.Reset
	case "reader":
		r := parquet.NewReader(sf)
		rr, closer, resetter = r, r.Close, r.Reset
	}
	cursor := 0
	opsig := ""
	if sc.Subject == "readall" {
		vals, _, err := sh.ReadAll(sf, sf.Size())
		if err != nil {
			out.Violation = core.Violate("C16/read-error/readall", "%v", err)
			return out
		}
		for i, v := range vals {
			typed = append(typed, heldTyped{i, v})
		}
		if v := checkTyped("right after Read"); v != nil {
			v.Class = "C16/wrong-data/readall"
			out.Violation = v
			return out
		}
	}
	for i, op := range sc.Ops {
		c.Step()
		opsig += op.Op[:2]
		switch op.Op {
		case "churn":
			if v := churn(); v != nil {
				out.Violation = v
				return out
			}
			if len(typed)+len(lastRows)+len(clones) > 0 {
				heldAcross++
			}
			if v := checkTyped(fmt.Sprintf("after churn (op %d)", i)); v != nil {
				out.Violation = v
				return out
			}
		case "seek":
			if sc.Subject == "readall" {
				continue
			}
			k := op.K
			if k > int64(subjectRows) {
				k = int64(subjectRows)
			}
			if v := checkLastRows(fmt.Sprintf("before SeekToRow (op %d)", i)); v != nil {
				out.Violation = v
				return out
			}
			lastRows = nil
			var err error
			if tr != nil {
				err = tr.SeekToRow(k)
			} else {
				err = rr.SeekToRow(k)
			}
			if err != nil {
				out.Violation = core.Violate("C16/seek-error/"+sc.Subject, "%v", err)
				return out
			}
			cursor = int(k)
			c.Event("seek %d", k)
		case "reset":
			if resetter == nil {
				continue
			}
			if v := checkLastRows(fmt.Sprintf("before Reset (op %d)", i)); v != nil {
				out.Violation = v
				return out
			}
			lastRows = nil
			resetter()
			cursor = 0
			c.Event("reset")
		case "read":
			if sc.Subject == "readall" {
				continue
			}
			if v := checkLastRows(fmt.Sprintf("before the next read (op %d)", i)); v != nil {
				out.Violation = v
				return out
			}
			lastRows = nil
			if len(typed) > 0 || len(clones) > 0 {
				heldAcross++
			}
			if tr != nil {
				vals, _, err := tr.Read(op.N)
				c.Event("read %d -> %d %v", op.N, len(vals), err)
				for j, v := range vals {
					if cursor+j < subjectRows {
						typed = append(typed, heldTyped{subjectModelOff + cursor + j, v})
					}
				}
				cursor += len(vals)
				if err != nil && !errors.Is(err, io.EOF) {
					out.Violation = core.Violate("C16/read-error/"+sc.Subject, "%v", err)
					return out
				}
			} else {
				buf := make([]parquet.Row, op.N)
				m, err := rr.ReadRows(buf)
				c.Event("readrows %d -> %d %v", op.N, m, err)
				for j := 0; j < m && cursor+j < subjectRows; j++ {
					lastRows = append(lastRows, heldRow{subjectModelOff + cursor + j, buf[j]})
					if len(clones) < 400 {
						clones = append(clones, heldRow{subjectModelOff + cursor + j, buf[j].Clone()})
					}
				}
				cursor += m
				if err != nil && !errors.Is(err, io.EOF) {
					out.Violation = core.Violate("C16/read-error/"+sc.Subject, "%v", err)
					return out
				}
				if v := checkLastRows("right after ReadRows"); v != nil {
					v.Class = "C16/wrong-data/" + sc.Subject
					out.Violation = v
					return out
				}
			}
			if v := checkTyped(fmt.Sprintf("after read (op %d)", i)); v != nil {
				out.Violation = v
				return out
			}
		}
		if v := checkClones(fmt.Sprintf("after op %d", i)); v != nil {
			out.Violation = v
			return out
		}
	}
	if v := checkLastRows("before Close"); v != nil {
		out.Violation = v
		return out
	}
	if closer != nil {
		if err := closer(); err != nil {
			out.Violation = core.Violate("C16/close-error/"+sc.Subject, "%v", err)
			return out
		}
	}
	if v := churn(); v != nil {
		out.Violation = v
		return out
	}
	if v := checkTyped("after Close and churn"); v != nil {
		out.Violation = v
		return out
	}
	if v := checkClones("after Close and churn"); v != nil {
		out.Violation = v
		return out
	}
	_, _, _, doublePuts, poisoned := parquet.VerifPoolStats()
	if doublePuts > 0 {
		out.Violation = core.Violate("C16/pool-double-put/"+sc.Subject, "%d object(s) were put into a process-wide pool while already in it: the next two takers would share one object", doublePuts)
		return out
	}
	c.ProbeN("slices-poisoned", int(min(poisoned, 1<<20)))
	out.Nontrivial = (len(typed) > 0 || len(clones) > 0) && heldAcross > 0 && sc.Pools.Poison
	out.Sig = fmt.Sprintf("%s|%s|%s|%s", sc.Plan.Shape, sc.Plan.W.Sig(), sc.Subject, opsig)
	out.Sample = map[string]any{"subject": sc.Subject, "shape": sc.Plan.Shape, "rows": len(model), "ops": sc.Ops, "typed_held": len(typed), "clones_held": len(clones)}
	return out
}

// c16KeptRows hands rows to the buffering writers (SortingWriter, RowBuffer),
// keeps them, lets the writer go through several buffer generations, and
// checks the caller's rows are still what was passed.
func c16KeptRows(c *core.Ctx, sh gen.Shape, pristine gen.Data) *core.Violation {
	model := pristine.Rows()
	if len(model) == 0 || sh.HasMap() {
		return nil
	}
	n := min(len(model), 64)
	for _, subject := range []string{"sorting-writer", "row-buffer", "dedupe-writer"} {
		kept := gen.CloneRows(model[:n])
		check := func(when string) *core.Violation {
			for i := range kept {
				if d := gen.RowDiff(model[i], kept[i]); d != "" {
					return core.Violate("C16/writer-modified-input/"+subject, "row %d passed to WriteRows differs %s: %s", i, when, d)
				}
			}
			return nil
		}
		switch subject {
		case "sorting-writer":
			sink, face := env.NewSink(c, env.SinkFaces{}, nil)
			w := sh.NewSortingWriter(face, 5, parquet.SortingWriterConfig(parquet.SortingColumns(parquet.Ascending("id"))))
			for lo := 0; lo < n; lo += 3 {
				if _, err := w.WriteRows(kept[lo:min(lo+3, n)]); err != nil {
					return core.Violate("C16/write-error/sorting-writer", "%v", err)
				}
				if v := check("after a later WriteRows"); v != nil {
					return v
				}
			}
			if err := w.Close(); err != nil {
				return core.Violate("C16/write-error/sorting-writer", "Close: %v", err)
			}
			_ = sink
			// the other direction: the writer must not depend on the caller's memory
			// after WriteRows returned. Private copies are overwritten right after
			// each call; the file (sorted by id = the order written) holds the model
			sink2, face2 := env.NewSink(c, env.SinkFaces{}, nil)
			w2 := sh.NewSortingWriter(face2, 5, parquet.SortingWriterConfig(parquet.SortingColumns(parquet.Ascending("id"))))
			for lo := 0; lo < n; lo += 3 {
				mine := gen.CloneRows(model[lo:min(lo+3, n)])
				if _, err := w2.WriteRows(mine); err != nil {
					return core.Violate("C16/write-error/sorting-writer", "%v", err)
				}
				gen.Scribble(mine)
			}
			if err := w2.Close(); err != nil {
				return core.Violate("C16/write-error/sorting-writer", "Close: %v", err)
			}
			if v := c16FileHolds(c, sink2.Bytes(), model[:n], "sorting-writer"); v != nil {
				return v
			}
		case "dedupe-writer":
			// one row per call, as a row-at-a-time producer does
			sink, face := env.NewSink(c, env.SinkFaces{}, nil)
			w := parquet.NewWriter(face, sh.Schema())
			dw := parquet.DedupeRowWriter(w, sh.Schema().Comparator(parquet.Ascending("id")))
			for i := 0; i < n; i++ {
				if _, err := dw.WriteRows(kept[i : i+1]); err != nil {
					return core.Violate("C16/write-error/dedupe-writer", "%v", err)
				}
				if v := check("after WriteRows of one row"); v != nil {
					return v
				}
			}
			if err := w.Close(); err != nil {
				return core.Violate("C16/write-error/dedupe-writer", "Close: %v", err)
			}
			_ = sink
		case "row-buffer":
			buf := sh.NewBuffer(gen.BRow)
			for gen := 0; gen < 3; gen++ {
				lo, hi := gen*n/3, (gen+1)*n/3
				if _, err := buf.WriteRows(kept[lo:hi]); err != nil {
					return core.Violate("C16/write-error/row-buffer", "%v", err)
				}
				if v := check("after WriteRows"); v != nil {
					return v
				}
				buf.Reset()
			}
			for gen_ := 0; gen_ < 3; gen_++ {
				lo, hi := gen_*n/3, (gen_+1)*n/3
				mine := gen.CloneRows(model[lo:hi])
				if _, err := buf.WriteRows(mine); err != nil {
					return core.Violate("C16/write-error/row-buffer", "%v", err)
				}
				gen.Scribble(mine)
				got, v := drainRows(buf.Rows())
				if v != nil {
					v.Class = "C16/read-error/row-buffer"
					return v
				}
				if len(got) != hi-lo {
					return core.Violate("C16/writer-kept-callers-memory/row-buffer", "buffer holds %d rows after WriteRows of %d", len(got), hi-lo)
				}
				for i := range got {
					if d := gen.RowDiff(model[lo+i], got[i]); d != "" {
						return core.Violate("C16/writer-kept-callers-memory/row-buffer", "row %d read from the buffer after the caller reused the memory of the rows it had passed to WriteRows: %s", lo+i, d)
					}
				}
				buf.Reset()
			}
		}
		if v := check("at the end"); v != nil {
			return v
		}
	}
	return nil
}

// c16FileHolds reads a file back and compares it with the model rows.
func c16FileHolds(c *core.Ctx, data []byte, model []parquet.Row, subject string) *core.Violation {
	sf := env.NewFile(c, data)
	f, err := parquet.OpenFile(sf, sf.Size())
	if err != nil {
		return core.Violate("C16/open-error/"+subject, "%v", err)
	}
	var got []parquet.Row
	for _, rg := range f.RowGroups() {
		rows, v := drainRows(rg.Rows())
		if v != nil {
			v.Class = "C16/read-error/" + subject
			return v
		}
		got = append(got, rows...)
	}
	if len(got) != len(model) {
		return core.Violate("C16/writer-kept-callers-memory/"+subject, "file holds %d rows, %d were written", len(got), len(model))
	}
	for i := range got {
		if d := gen.RowDiff(model[i], got[i]); d != "" {
			return core.Violate("C16/writer-kept-callers-memory/"+subject, "row %d of the file written from rows whose memory the caller reused after WriteRows returned: %s", i, d)
		}
	}
	return nil
}

// c16MapRows reads the file as map[string]any rows into a batch slice that is
// reused while the maps of earlier batches are kept: a group rebuilt into a Go
// map must not be filled into the map object handed out by an earlier call.
func c16MapRows(c *core.Ctx, sh gen.Shape, data []byte, nrows int) (v *core.Violation) {
	if nrows == 0 {
		return nil
	}
	defer func() {
		if p := recover(); p != nil {
			v = core.Violate("C16/panic/map-rows", "panic: %v%s", p, core.StackIfWanted())
		}
	}()
	sf := env.NewFile(c, data)
	f, err := parquet.OpenFile(sf, sf.Size())
	if err != nil {
		return core.Violate("C16/open-error/map-rows", "%v", err)
	}
	r := parquet.NewGenericReader[map[string]any](f, sh.Schema())
	defer r.Close()
	batch := make([]map[string]any, 7)
	for i := range batch {
		batch[i] = map[string]any{}
	}
	type keptMap struct {
		m    map[string]any
		snap string
		row  int
	}
	var kept []keptMap
	row := 0
	for calls := 0; calls < 40; calls++ {
		n, err := r.Read(batch)
		for i := 0; i < n; i++ {
			kept = append(kept, keptMap{m: batch[i], snap: fmt.Sprintf("%#v", batch[i]), row: row})
			row++
		}
		for _, k := range kept {
			if now := fmt.Sprintf("%#v", k.m); now != k.snap {
				return core.Violate("C16/typed-value-changed/map-rows", "the map returned for row %d changed after a later Read into the same batch slice", k.row)
			}
		}
		if len(kept) > 64 {
			kept = kept[len(kept)-64:]
		}
		if err != nil {
			if !errors.Is(err, io.EOF) {
				return core.Violate("C16/read-error/map-rows", "%v", err)
			}
			break
		}
		if n == 0 {
			break
		}
	}
	c.Probe("map-rows-read")
	return nil
}

// c16MapRowsFromBuffer reads an in-memory buffer as map[string]any rows, then
// resets and refills the buffer with other rows (its column memory goes back to
// the pools and out again): the values handed out before must not change.
func c16MapRowsFromBuffer(sh gen.Shape, data gen.Data, churn WritePlan) (v *core.Violation) {
	if data.Len() == 0 || sh.HasMap() {
		return nil
	}
	defer func() {
		if p := recover(); p != nil {
			v = core.Violate("C16/panic/map-rows-buffer", "panic: %v%s", p, core.StackIfWanted())
		}
	}()
	n := min(data.Len(), 100)
	buf := sh.NewBuffer(gen.BUntyped)
	if _, err := buf.Write(data, 0, n); err != nil {
		return core.Violate("C16/write-error/map-rows-buffer", "%v", err)
	}
	r := parquet.NewGenericRowGroupReader[map[string]any](buf, sh.Schema())
	rows := make([]map[string]any, n)
	for i := range rows {
		rows[i] = map[string]any{}
	}
	got := 0
	for got < n {
		m, err := r.Read(rows[got:])
		got += m
		if err != nil || m == 0 {
			break
		}
	}
	r.Close()
	snaps := make([]string, got)
	for i := 0; i < got; i++ {
		snaps[i] = fmt.Sprintf("%#v", rows[i])
	}
	// other rows of the same shape through the same buffer and a second one
	other := sh.Make(churn.RowSeed+17, n, gen.Profile(churn.Profile))
	for round := 0; round < 2; round++ {
		buf.Reset()
		if _, err := buf.Write(other, 0, other.Len()); err != nil {
			return core.Violate("C16/write-error/map-rows-buffer", "%v", err)
		}
		b2 := sh.NewBuffer(gen.BUntyped)
		if _, err := b2.Write(other, 0, other.Len()); err != nil {
			return core.Violate("C16/write-error/map-rows-buffer", "%v", err)
		}
		b2.Reset()
	}
	for i := 0; i < got; i++ {
		if now := fmt.Sprintf("%#v", rows[i]); now != snaps[i] {
			return core.Violate("C16/typed-value-changed/map-rows-buffer", "row %d read from an in-memory buffer as map[string]any changed after the buffer was reset and refilled", i)
		}
	}
	return nil
}
