package props

import (
	"bytes"
	"crypto/sha256"
	"encoding/hex"
	"fmt"
	"io"
	"os"
	"sort"

	"github.com/parquet-go/parquet-go"

	"pqsim/core"
	"pqsim/env"
	"pqsim/gen"
	"pqsim/tape"
)

// C17 — output bytes are a function of input and options only (E1 history:
// prior lives of a reused writer/buffer; cross-process and cross-build digests).

type Life struct {
	RowSeed uint64         `json:"row_seed"`
	NRows   int            `json:"n_rows"`
	Profile int            `json:"profile"`
	Ops     []WOp          `json:"ops"`
	End     string         `json:"end"` // close | abandon | sinkfail
	Fault   *env.SinkFault `json:"fault,omitempty"`
}

type C17Scenario struct {
	Subject      string     `json:"subject"` // writer | buffer | sorting
	BufferKind   string     `json:"buffer_kind,omitempty"`
	BufferSorted bool       `json:"buffer_sorted,omitempty"` // buffer subject: sorting column configured and sort.Sort before every WriteRowGroup
	SortRows     int64      `json:"sort_rows,omitempty"`
	Plan         WritePlan  `json:"plan"`
	Pools        PoolPolicy `json:"pools"`
	Prior        []Life     `json:"prior"`
	Goroutine    bool       `json:"goroutine"`
	Repeat       int        `json:"repeat"`
	ExpectDigest string     `json:"expect_digest,omitempty"`
	ExpectFrom   string     `json:"expect_from,omitempty"`
}

func (s *C17Scenario) SetExpect(digest, from string) { s.ExpectDigest, s.ExpectFrom = digest, from }

type C17 struct{}

func (C17) ID() string { return "C17" }

func (C17) Info() core.Info {
	return core.Info{
		Level: "exploration",
		Rule: "one run = one seeded target (rows X, options, Write/Flush split) written (a) by a writer/buffer/sorting-writer instance after a seeded history of prior lives (other content, other row-group counts, closed / abandoned without Close / destination failed mid-way) followed by Reset, (b) by a fresh instance in a fresh pool state, (c) again in the warm process and on another goroutine; all outputs must be byte-identical. " +
			"The sha256 of (b) for the first runs of the batch is recomputed by the purego build and by the accelerated build with AVX-512/AVX2 disabled (GODEBUG), in other processes, and must match. distinct = distinct (subject, options, prior-life shape) signatures; non-trivial = >= 1 prior life that wrote >= 1 row and differed from X",
		Real:      []string{"parquet-go writer, buffers, sorting writer, encodings, codecs (all real code from /repo), in three build/CPU variants"},
		Stubs:     []string{"destination io.Writer (SimSink; one injected fault inside a prior life)", "page/sorting BufferPool (SimBufferPool)", "internal/memory.Pool (deterministic H1/H2)"},
		Assume:    []string{"Go map-typed values and encrypted writers are not generated (excepted by the property)", "every life of an instance and the fresh reference use the same options incl. key/value metadata", "cross-CPU comparison limited to this machine: AVX-512, AVX2-off via GODEBUG, purego"},
		FaultKind: env.SinkKinds,
	}
}

func (C17) Budget(tier string) core.Budget {
	if tier == "thorough" {
		return core.Budget{Runs: 40000, MaxWall: 20 * 60e9, Cross: 3000}
	}
	return core.Budget{Runs: 2000, MaxWall: 40e9, Cross: 300}
}

func (C17) New() any { return &C17Scenario{} }

func genLife(t *tape.Tape) Life {
	l := Life{RowSeed: t.Seed(), NRows: genRowCount(t, 600), Profile: t.Draw(3)}
	l.Ops = genOps(t, l.NRows)
	l.End = []string{"close", "abandon", "sinkfail"}[t.Weighted(3, 2, 2)]
	if l.End == "sinkfail" {
		l.Fault = &env.SinkFault{Kind: env.SinkKinds[t.Draw(3)], AtByte: int64(t.Draw(6000)), Sticky: t.Bool()}
	}
	return l
}

func (C17) Gen(t *tape.Tape, tier string) any {
	sc := &C17Scenario{}
	shapes := []gen.Shape{gen.ShapeFlat, gen.ShapeNested, gen.ShapeLogical, gen.ShapeDyn, gen.ShapeGen}
	sc.Subject = []string{"writer", "buffer", "sorting"}[t.Weighted(5, 2, 2)]
	sc.Plan = GenWritePlan(t, shapes, 800)
	if t.Chance(1, 3) {
		gen.GenBloom(t, gen.ShapeByName(sc.Plan.Shape), &sc.Plan.W)
	}
	sc.Pools = GenPoolPolicy(t)
	if sc.Subject == "writer" && t.Chance(1, 8) {
		// a page per Write call: the number of pages of every column chunk is
		// chosen (the vector kernels over page bounds have block sizes of 7, 8, 15
		// and 16 values), and pages of one or two values are often all-NaN
		np := []int{56, 112, 240, 57, 16, 15, 8, 7, 64}[t.Draw(9)]
		per := 1 + t.Draw(2)
		sc.Plan.NRows = np * per
		sc.Plan.Ops = nil
		for i := 0; i < np; i++ {
			sc.Plan.Ops = append(sc.Plan.Ops, WOp{Op: "write", N: per})
		}
		sc.Plan.W.PageBufferSize = 1
		sc.Plan.W.MaxRowsPerGroup = 0
		sc.Plan.W.NoStats = false
	}
	switch sc.Subject {
	case "buffer":
		sc.BufferKind = gen.BufferKinds[t.Draw(len(gen.BufferKinds))]
		sc.BufferSorted = t.Bool()
	case "sorting":
		sc.SortRows = int64([]int{100, 1, 7, 50, 1000}[t.Draw(5)])
		sc.Plan.W.Sorting = []gen.SortCol{{Path: []string{"id"}, Desc: t.Bool()}}
		sc.Plan.W.DropDuplicates = t.Bool() // state kept across sort runs and lives
		sc.Plan.WriterKind = gen.WGeneric
	}
	n := t.Weighted(1, 4, 3, 2)
	for i := 0; i < n; i++ {
		sc.Prior = append(sc.Prior, genLife(t))
	}
	sc.Goroutine = t.Bool()
	sc.Repeat = t.Draw(3)
	return sc
}

func digest(b []byte) string {
	h := sha256.Sum256(b)
	return hex.EncodeToString(h[:])
}

func firstDiff(a, b []byte) int {
	n := min(len(a), len(b))
	for i := 0; i < n; i++ {
		if a[i] != b[i] {
			return i
		}
	}
	return n
}

func (C17) Run(s any, c *core.Ctx) core.Outcome {
	sc := s.(*C17Scenario)
	out := core.Outcome{}
	sh, data := sc.Plan.MakeData()

	writeWith := func(useHistory bool) ([]byte, *core.Violation) {
		switch sc.Subject {
		case "writer", "sorting":
			e := &gen.Env{Ctx: c}
			opts := sc.Plan.W.Options(e)
			sink, face := env.NewSink(c, sc.Plan.Sink, nil)
			var w gen.Writer
			mk := func(f io.Writer) gen.Writer {
				if sc.Subject == "sorting" {
					return sh.NewSortingWriter(f, sc.SortRows, opts...)
				}
				return sh.NewWriter(sc.Plan.WriterKind, f, opts...)
			}
			if useHistory {
				for li, life := range sc.Prior {
					lsink, lface := env.NewSink(c, sc.Plan.Sink, life.Fault)
					if w == nil {
						w = mk(lface)
					} else {
						w.Reset(lface)
					}
					ld := sh.Make(life.RowSeed, life.NRows, gen.Profile(life.Profile))
					lw := &Written{Shape: sh, Data: ld, Sink: lsink, Env: e, W: w}
					c.Event("life %d end=%s", li, life.End)
					if life.End == "abandon" {
						lw.runOpsNoClose(c, life.Ops)
					} else {
						lw.RunOps(c, life.Ops, 0)
					}
					if life.End != "sinkfail" && lw.FirstErr != nil {
						return nil, core.Violate("C17/prior-life-error", "fault-free prior life %d failed at %s: %v", li, lw.ErrOp, lw.FirstErr)
					}
				}
			}
			if w == nil {
				w = mk(face)
			} else {
				w.Reset(face)
			}
			fw := &Written{Shape: sh, Data: data, Sink: sink, Env: e, W: w}
			fw.RunOps(c, sc.Plan.Ops, 0)
			if fw.FirstErr != nil {
				return nil, core.Violate("C17/write-error/"+fw.ErrOp, "history=%v: %v", useHistory, fw.FirstErr)
			}
			if an := e.PoolAnomalies(); len(an) > 0 {
				return nil, core.Violate("C17/buffer-pool-misuse/"+sc.Subject, "history=%v: %s", useHistory, an[0])
			}
			return sink.Bytes(), nil
		case "buffer":
			var ropts []parquet.RowGroupOption
			if sc.BufferSorted {
				ropts = append(ropts, parquet.SortingRowGroupConfig(parquet.SortingColumns(parquet.Descending("id"))))
			}
			buf := sh.NewBuffer(sc.BufferKind, ropts...)
			if useHistory {
				for li, life := range sc.Prior {
					ld := sh.Make(life.RowSeed, life.NRows, gen.Profile(life.Profile))
					pos := 0
					for _, op := range life.Ops {
						if op.Op == "write" || op.Op == "sortedrg" {
							if _, err := buf.Write(ld, pos, min(pos+op.N, ld.Len())); err != nil {
								return nil, core.Violate("C17/buffer-write-error", "%v", err)
							}
							pos += op.N
						}
					}
					if sc.BufferSorted {
						sort.Sort(buf)
						if li%2 == 0 {
							// materialise the sorted pages before the buffer is reset
							if _, v := drainRows(buf.Rows()); v != nil {
								v.Class = "C17/prior-life-error"
								return nil, v
							}
						}
					}
					buf.Reset()
				}
			}
			pos := 0
			for _, op := range sc.Plan.Ops {
				if op.Op == "write" || op.Op == "sortedrg" {
					if _, err := buf.Write(data, pos, min(pos+op.N, data.Len())); err != nil {
						return nil, core.Violate("C17/buffer-write-error", "%v", err)
					}
					pos += op.N
				}
			}
			if sc.BufferSorted {
				sort.Sort(buf)
			}
			e := &gen.Env{Ctx: c}
			sink, face := env.NewSink(c, sc.Plan.Sink, nil)
			w := sh.NewWriter(gen.WGeneric, face, sc.Plan.W.Options(e)...)
			if data.Len() > 0 {
				if _, err := w.WriteRowGroup(buf); err != nil {
					return nil, core.Violate("C17/write-row-group-error", "%v", err)
				}
			}
			if err := w.Close(); err != nil {
				return nil, core.Violate("C17/write-error/close", "%v", err)
			}
			return sink.Bytes(), nil
		}
		panic("unknown subject")
	}

	// (b) fresh instance, fresh pools
	sc.Pools.Install()
	fresh, v := writeWith(false)
	if v != nil {
		out.Violation = v
		return out
	}
	out.Digest = digest(fresh)
	if d := os.Getenv("PQSIM_DUMP"); d != "" {
		os.WriteFile(d+"/fresh.parquet", fresh, 0o644)
	}
	if sc.ExpectDigest != "" && sc.ExpectDigest != out.Digest {
		out.Violation = core.Violate("C17/cross-build-digest-differs/"+sc.ExpectFrom, "this build wrote %d bytes with sha256 %s; %s wrote sha256 %s for the same scenario", len(fresh), out.Digest, sc.ExpectFrom, sc.ExpectDigest)
		return out
	}
	// (a) reused instance with history, pools as left by the history
	sc.Pools.Install()
	reused, v := writeWith(true)
	if v != nil {
		out.Violation = v
		return out
	}
	if d := os.Getenv("PQSIM_DUMP"); d != "" {
		os.WriteFile(d+"/fresh.parquet", fresh, 0o644)
		os.WriteFile(d+"/reused.parquet", reused, 0o644)
	}
	if !bytes.Equal(fresh, reused) {
		ends := ""
		for _, l := range sc.Prior {
			ends += l.End[:1]
		}
		out.Violation = core.Violate("C17/reused-instance-differs/"+sc.Subject, "after %d prior lives (%s) and Reset the output (%d bytes) differs from a fresh instance's (%d bytes) at offset %d", len(sc.Prior), ends, len(reused), len(fresh), firstDiff(fresh, reused))
		return out
	}
	// (c) warm process repeats, other goroutine
	for i := 0; i < sc.Repeat; i++ {
		again, v := writeWith(false)
		if v != nil {
			out.Violation = v
			return out
		}
		if !bytes.Equal(fresh, again) {
			out.Violation = core.Violate("C17/repeat-differs/"+sc.Subject, "writing the same rows again in the same process gave different bytes at offset %d", firstDiff(fresh, again))
			return out
		}
	}
	if sc.Goroutine {
		type res struct {
			b []byte
			v *core.Violation
		}
		ch := make(chan res, 1)
		go func() {
			defer func() {
				if p := recover(); p != nil {
					ch <- res{nil, core.Violate("C17/panic/goroutine", "%v", p)}
				}
			}()
			b, v := writeWith(false)
			ch <- res{b, v}
		}()
		r := <-ch
		if r.v != nil {
			out.Violation = r.v
			return out
		}
		if !bytes.Equal(fresh, r.b) {
			out.Violation = core.Violate("C17/goroutine-differs/"+sc.Subject, "writing on another goroutine gave different bytes at offset %d", firstDiff(fresh, r.b))
			return out
		}
	}
	nontrivial := false
	sig := fmt.Sprintf("%s|%s|%s|%s|", sc.Subject, sc.Plan.Shape, sc.Plan.WriterKind, sc.Plan.W.Sig())
	for _, l := range sc.Prior {
		if l.NRows > 0 && (l.RowSeed != sc.Plan.RowSeed || l.NRows != sc.Plan.NRows) {
			nontrivial = true
		}
		sig += l.End[:1]
	}
	out.Nontrivial = nontrivial
	out.Sig = sig
	out.Sample = map[string]any{"subject": sc.Subject, "shape": sc.Plan.Shape, "rows": sc.Plan.NRows, "prior_lives": len(sc.Prior), "bytes": len(fresh), "sha256": out.Digest, "opts": sc.Plan.W.Sig()}
	return out
}

// runOpsNoClose applies ops without closing (content abandoned before Reset).
func (res *Written) runOpsNoClose(c *core.Ctx, ops []WOp) {
	cursor := 0
	for i, op := range ops {
		if res.FirstErr != nil {
			return
		}
		switch op.Op {
		case "write":
			hi := min(cursor+op.N, res.Data.Len())
			_, err := res.W.Write(res.Data, cursor, hi)
			c.Event("op%d write %d %v", i, hi-cursor, err != nil)
			if err != nil {
				res.FirstErr, res.ErrOp = err, "write"
			}
			cursor = hi
		case "flush":
			err := res.W.Flush()
			c.Event("op%d flush %v", i, err != nil)
			if err != nil {
				res.FirstErr, res.ErrOp = err, "flush"
			}
		case "emptyrg":
			if _, err := res.W.WriteRowGroup(res.Shape.NewBuffer(gen.BUntyped)); err != nil {
				res.FirstErr, res.ErrOp = err, "write-empty-row-group"
			}
		case "sortedrg":
			hi := min(cursor+op.N, res.Data.Len())
			if err := writeSortedRowGroup(res.W, res.Shape, res.Data, cursor, hi); err != nil {
				res.FirstErr, res.ErrOp = err, "write-sorted-row-group"
			}
			cursor = hi
		}
	}
}
