package props

import (
	"fmt"

	"github.com/parquet-go/parquet-go"
	"github.com/parquet-go/parquet-go/compress"

	"pqsim/core"
	"pqsim/sched"
)

// c20Concurrent runs the history split over sc.Tasks tasks on the same codec
// value under the E3 scheduler; every memory-pool Get/Put and every boundary
// between two codec calls is a yield point.
func c20Concurrent(sc *C20Scenario, c *core.Ctx, codec compress.Codec) *core.Violation {
	c.Unstable() // the third-party codecs keep real sync.Pools: which instance they reuse is not ours to decide
	sc.Pools.Install()
	var replay []int
	if sc.Sched != nil {
		replay = sc.Sched
	}
	dec := sched.NewDecisions(sc.SchedSeed, replay)
	violations := make([]*core.Violation, sc.Tasks)
	probes := make([]map[string]int, sc.Tasks)
	var S *sched.S
	tasks := make([]func(*sched.S), sc.Tasks)
	for ti := 0; ti < sc.Tasks; ti++ {
		ti := ti
		probes[ti] = map[string]int{}
		var ops []CodecOp
		for i := ti; i < len(sc.Ops); i += sc.Tasks {
			ops = append(ops, sc.Ops[i])
		}
		tasks[ti] = func(s *sched.S) {
			for i := range ops {
				s.Yield("op", fmt.Sprint(i))
				v := c20RunOps(nil, sc.Codec, codec, ops[i:i+1], fmt.Sprintf("task %d ", ti), func(p string) { probes[ti][p]++ })
				if v != nil {
					violations[ti] = v
					return
				}
			}
		}
	}
	res := sched.Run(core.T, dec, 20000, nil, func(s *sched.S) {
		S = s
		parquet.VerifSetPoolYield(func(put bool) {
			if put {
				S.Yield("pool", "put")
			} else {
				S.Yield("pool", "get")
			}
		})
	}, tasks, nil)
	parquet.VerifSetPoolYield(nil)
	sc.Sched = res.Decisions
	c.Inter = res.Inter
	c.Steps += res.Steps
	c.Probe("sched-runs")
	c.ProbeN("sched-decisions", res.Steps)
	for _, pm := range probes {
		for k, n := range pm {
			c.ProbeN(k, n)
		}
	}
	if res.Panic != nil {
		return core.Violate("C20/panic/concurrent/"+sc.Codec, "task %d panicked: %v\n%s", res.PanicTask, res.Panic, core.IfStack(res.Stack))
	}
	if res.Deadlock != "" {
		return core.Violate("C20/deadlock/"+sc.Codec, "%s", res.Deadlock)
	}
	for _, v := range violations {
		if v != nil {
			v.Class += "/concurrent"
			return v
		}
	}
	return nil
}
