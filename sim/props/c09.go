package props

import (
	"errors"
	"fmt"
	"io"
	"os"
	"sort"

	"github.com/parquet-go/parquet-go"

	"pqsim/core"
	"pqsim/env"
	"pqsim/gen"
	"pqsim/tape"
)

// C09 — merging sorted inputs yields a sorted, complete, per-input-stable
// sequence (E4 stream-sim: simulated row sources with scripted chunking,
// simulated storage for file-backed inputs, arbitrary consumer batch sizes).

type MergeInput struct {
	Pattern  string `json:"pattern"`
	N        int    `json:"n"`
	Chunks   []int  `json:"chunks,omitempty"`
	EOFEarly bool   `json:"eof_early,omitempty"`
}

type C09Scenario struct {
	Subject  string        `json:"subject"` // readers | buffers | files
	Sort     []gen.SortCol `json:"sort"`
	Inputs   []MergeInput  `json:"inputs"`
	Seed     uint64        `json:"seed"`
	Dedupe   bool          `json:"dedupe,omitempty"`
	Consume  string        `json:"consume"` // read | write
	Batches  []int         `json:"batches"`
	SrcW     gen.WOpts     `json:"src_w"`
	DstW     gen.WOpts     `json:"dst_w"`
	NoRefine bool          `json:"no_refine,omitempty"`
	Pools    PoolPolicy    `json:"pools"`
}

type C09 struct{}

func (C09) ID() string { return "C09" }

func (C09) Info() core.Info {
	return core.Info{
		Level: "exploration",
		Rule: "one run = k in [0,9] sorted inputs whose key ranges follow a drawn overlap pattern (disjoint, touching, nested, identical, long runs from one input, alternating, heavy duplicates, random), under a drawn sorting-column list (ascending/descending, nullable with nulls first/last, two columns), merged by MergeRowReaders over simulated row sources (scripted chunk sizes, (k>0, EOF) and (0, EOF) endings) or by MergeRowGroups over buffers or file row groups on simulated storage (tiny pages so segment detection and range refinement engage; refinement also forced off through H3), with or without duplicate dropping, consumed with varying ReadRows batch sizes or written through WriteRowGroup and read back. " +
			"Every row carries a hidden (input id, sequence number) payload and a checksum. Oracle: output sorted under Schema.Comparator, exactly the multiset union of the inputs row by row, per-input sequence numbers increasing, one row per distinct key when deduplicating. distinct = distinct (subject, sort, patterns, consume) signatures; non-trivial = >= 2 non-empty inputs",
		Real:   []string{"parquet-go merge (2-way, heap, run mode), MergeRowGroups segment detection and refinement, row-range views, dedupe, WriteRowGroup of merged row groups, reader (all real code from /repo)"},
		Stubs:  []string{"row sources (SimRowReader)", "destination io.Writer (SimSink)", "source io.ReaderAt (SimFile)", "internal/memory.Pool (deterministic H1/H2)"},
		Assume: []string{"inputs are sorted with the library's own comparator (its meaning is C10's subject)", "row sources never return (0, nil)"},
	}
}

func (C09) Budget(tier string) core.Budget {
	if tier == "thorough" {
		return core.Budget{Runs: 400000, MaxWall: 15 * 60e9}
	}
	return core.Budget{Runs: 12000, MaxWall: 35e9}
}

func (C09) New() any { return &C09Scenario{} }

func (C09) Gen(t *tape.Tape, tier string) any {
	sc := &C09Scenario{}
	sc.Subject = []string{"readers", "buffers", "files"}[t.Weighted(3, 2, 4)]
	sc.Sort = genSortSpec(t)
	sc.Seed = t.Seed()
	k := []int{2, 0, 1, 3, 4, 5, 9}[t.Weighted(4, 1, 1, 3, 2, 1, 1)]
	pattern := keyPatterns[t.Draw(len(keyPatterns))]
	if pattern == "partial" && k > 5 {
		k = 5
	}
	for i := 0; i < k; i++ {
		in := MergeInput{Pattern: pattern}
		if t.Chance(1, 4) {
			in.Pattern = keyPatterns[t.Draw(len(keyPatterns))]
		}
		in.N = []int{0, 1, 5, 30, 100, 400}[t.Weighted(1, 1, 2, 3, 3, 2)]
		if in.Pattern == "runs" && in.N > 0 {
			in.N = 400
		}
		if in.Pattern == "partial" {
			in.N = []int{1300, 1500, 2600}[t.Draw(3)]
		}
		nch := t.Draw(4)
		for j := 0; j < nch; j++ {
			in.Chunks = append(in.Chunks, []int{1, 2, 7, 24, 64, 192, 500}[t.Draw(7)])
		}
		in.EOFEarly = t.Bool()
		sc.Inputs = append(sc.Inputs, in)
	}
	if pattern == "partial" && k >= 2 {
		// range refinement needs file-backed inputs with a page index, long lone
		// stretches and - to make a misplaced boundary page visible - a second,
		// non-null sorting column that orders equal first-column keys across inputs
		if t.Chance(2, 3) {
			sc.Subject = "files"
		}
		if t.Chance(1, 2) {
			sc.Sort = sortSpecs[10+t.Draw(2)]
		}
	}
	sc.Dedupe = sc.Subject != "readers" && t.Chance(1, 4)
	sc.Consume = []string{"read", "write"}[t.Weighted(3, 2)]
	if sc.Subject == "readers" {
		sc.Consume = "read"
	}
	sc.Batches = genBatches(t)
	sh := gen.ShapeKeyed
	sc.SrcW = gen.GenWOpts(t, sh)
	sc.SrcW.PageBufferSize = []int{64, 32, 256, 1024, 0}[t.Draw(5)]
	sc.SrcW.WriteBufferSize = -1
	sc.SrcW.MaxRowsPerGroup = 0 // one row group per input: row groups are the merge's inputs
	if pattern == "partial" {
		sc.SrcW.PageBufferSize = []int{64, 32, 256}[t.Draw(3)]
		sc.SrcW.NoStats = false
	}
	sc.DstW = gen.GenWOpts(t, sh)
	sc.DstW.WriteBufferSize = -1
	if t.Bool() {
		sc.DstW = sc.SrcW
	}
	sc.NoRefine = t.Chance(1, 4)
	sc.Pools = GenPoolPolicy(t)
	if force := os.Getenv("PQSIM_C09_PATTERN"); force != "" { // triage aid: bias the batch towards one pattern
		for i := range sc.Inputs {
			sc.Inputs[i].Pattern = force
			if force == "partial" {
				sc.Inputs[i].N = 1500 + 100*i
			}
		}
		sc.Subject, sc.Dedupe, sc.NoRefine = "files", false, false
		sc.Sort = sortSpecs[10]
	}
	return sc
}

func (C09) Run(s any, c *core.Ctx) core.Outcome {
	sc := s.(*C09Scenario)
	out := core.Outcome{}
	sc.Pools.Install()
	parquet.VerifDisableMergeRefinement(sc.NoRefine)
	defer parquet.VerifDisableMergeRefinement(false)

	sortCols := gen.SortingColumns(sc.Sort)
	cmp := keyedSchema.Comparator(sortCols...)
	k := len(sc.Inputs)
	inputs := make([][]parquet.Row, k)
	typed := make([][]gen.Keyed, k)
	total, nonEmpty := 0, 0
	for i, in := range sc.Inputs {
		typed[i], inputs[i] = keyedInput(sc.Seed, in.Pattern, i, k, in.N, cmp)
		total += len(inputs[i])
		if len(inputs[i]) > 0 {
			nonEmpty++
		}
	}
	sig := fmt.Sprintf("%s|%v|%s|%v|", sc.Subject, sc.Sort, sc.Consume, sc.Dedupe)
	for _, in := range sc.Inputs {
		sig += in.Pattern[:2]
	}
	out.Sig = sig
	out.Nontrivial = nonEmpty >= 2
	out.Sample = map[string]any{"subject": sc.Subject, "sort": sc.Sort, "inputs": sc.Inputs, "consume": sc.Consume, "dedupe": sc.Dedupe, "total_rows": total}

	var got []parquet.Row
	var v *core.Violation
	switch sc.Subject {
	case "readers":
		readers := make([]parquet.RowReader, k)
		for i, in := range sc.Inputs {
			readers[i] = &simRowReader{c: c, id: i, rows: inputs[i], chunks: in.Chunks, eofEarly: in.EOFEarly}
		}
		m := parquet.MergeRowReaders(readers, cmp)
		got, v = c09Drain(c, m, &batches{sizes: sc.Batches}, total)
	case "buffers", "files":
		var rgs []parquet.RowGroup
		for i := range sc.Inputs {
			if sc.Subject == "buffers" {
				buf := parquet.NewGenericBuffer[gen.Keyed](parquet.SortingRowGroupConfig(parquet.SortingColumns(sortCols...)))
				if len(typed[i]) > 0 {
					if _, err := buf.Write(typed[i]); err != nil {
						out.Violation = core.Violate("C09/source-write-error", "%v", err)
						return out
					}
				}
				rgs = append(rgs, buf)
			} else {
				e := &gen.Env{Ctx: c}
				ww := sc.SrcW
				ww.Sorting = sc.Sort
				sink, face := env.NewSink(c, env.SinkFaces{}, nil)
				w := parquet.NewGenericWriter[gen.Keyed](face, ww.Options(e)...)
				if len(typed[i]) > 0 {
					if _, err := w.Write(typed[i]); err != nil {
						out.Violation = core.Violate("C09/source-write-error", "%v", err)
						return out
					}
				}
				if err := w.Close(); err != nil {
					out.Violation = core.Violate("C09/source-write-error", "%v", err)
					return out
				}
				sf := env.NewFile(c, sink.Bytes())
				f, err := parquet.OpenFile(sf, sf.Size())
				if err != nil {
					out.Violation = core.Violate("C09/source-open-error", "%v", err)
					return out
				}
				if len(f.RowGroups()) > 1 {
					c.Probe("input-with-several-row-groups")
				}
				rgs = append(rgs, f.RowGroups()...)
			}
		}
		so := []parquet.SortingOption{parquet.SortingColumns(sortCols...)}
		if sc.Dedupe {
			so = append(so, parquet.DropDuplicatedRows(true))
		}
		opts := []parquet.RowGroupOption{parquet.SortingRowGroupConfig(so...), keyedSchema}
		merged, err := parquet.MergeRowGroups(rgs, opts...)
		if err != nil {
			out.Violation = core.Violate("C09/merge-error", "MergeRowGroups of %d row groups: %v", len(rgs), err)
			return out
		}
		if sc.Consume == "read" {
			rows := merged.Rows()
			got, v = c09Drain(c, rows, &batches{sizes: sc.Batches}, total)
			rows.Close()
		} else {
			e := &gen.Env{Ctx: c}
			sink, face := env.NewSink(c, env.SinkFaces{}, nil)
			wopts := append([]parquet.WriterOption{merged.Schema()}, sc.DstW.Options(e)...)
			w := parquet.NewWriter(face, wopts...)
			c0, r0 := parquet.VerifCopyPathCount(), parquet.VerifReencodePathCount()
			if _, err := w.WriteRowGroup(merged); err != nil {
				out.Violation = core.Violate("C09/write-row-group-error", "%v", err)
				return out
			}
			if err := w.Close(); err != nil {
				out.Violation = core.Violate("C09/write-error/close", "%v", err)
				return out
			}
			if parquet.VerifCopyPathCount() > c0 {
				c.Probe("merged-written-by-verbatim-copy")
			}
			if parquet.VerifReencodePathCount() > r0 {
				c.Probe("merged-written-by-column-reencode")
			}
			sf := env.NewFile(c, sink.Bytes())
			f, err := parquet.OpenFile(sf, sf.Size())
			if err != nil {
				out.Violation = core.Violate("C09/output-open-error", "%v", err)
				return out
			}
			for _, rg := range f.RowGroups() {
				rows := rg.Rows()
				part, pv := c09Drain(c, rows, &batches{sizes: sc.Batches}, total)
				rows.Close()
				if pv != nil {
					v = pv
					break
				}
				got = append(got, part...)
			}
		}
	}
	if v != nil {
		v.Class = "C09/" + lastSeg2(v.Class) + "/" + sc.Subject
		out.Violation = v
		return out
	}
	// the comparator the inputs were sorted with and the output is judged by is
	// the library's: it must mean what the sorting columns declare (direction on
	// values, nulls last unless NullsFirst), on every pair of neighbours seen
	ref := refCompare(sc.Sort)
	agree := func(rows []parquet.Row, what string) *core.Violation {
		for i := 1; i < len(rows); i++ {
			sa, qa, oka := rowIdent(rows[i-1])
			sb, qb, okb := rowIdent(rows[i])
			if !oka || !okb || sa >= len(typed) || sb >= len(typed) || qa >= len(typed[sa]) || qb >= len(typed[sb]) {
				continue
			}
			if lc, rc := cmp(rows[i-1], rows[i]), ref(typed[sa][qa], typed[sb][qb]); sgn(lc) != sgn(rc) {
				return core.Violate("C09/comparator-disagrees-with-declared-order", "%s: Schema.Comparator(%v) says %d, the format's meaning of the sorting columns says %d for %s | %s", what, sc.Sort, lc, rc, fmtKeyed(rows[i-1]), fmtKeyed(rows[i]))
			}
		}
		return nil
	}
	for i := range inputs {
		if v := agree(inputs[i], fmt.Sprintf("input %d", i)); v != nil {
			out.Violation = v
			return out
		}
	}
	if v := agree(got, "output"); v != nil {
		out.Violation = v
		return out
	}
	out.Violation = c09Check(sc, cmp, inputs, got)
	return out
}

func lastSeg2(class string) string {
	// drop the leading "C09/"
	if len(class) > 4 {
		return class[4:]
	}
	return class
}

func c09Drain(c *core.Ctx, r parquet.RowReader, b *batches, limit int) ([]parquet.Row, *core.Violation) {
	var out []parquet.Row
	stalls := 0
	for {
		n := b.next()
		buf := make([]parquet.Row, n)
		m, err := r.ReadRows(buf)
		c.Step()
		c.Event("merge.read %d -> %d %v", n, m, err)
		if m < 0 || m > n {
			return out, core.Violate("C09/bad-count", "ReadRows returned %d for a buffer of %d", m, n)
		}
		for i := 0; i < m; i++ {
			out = append(out, buf[i].Clone())
		}
		if len(out) > limit+8 {
			return out, core.Violate("C09/too-many-rows", "merge delivered more than the %d input rows", limit)
		}
		if err != nil {
			if errors.Is(err, io.EOF) {
				return out, nil
			}
			return out, core.Violate("C09/read-error", "after %d rows: %v", len(out), err)
		}
		if m == 0 {
			if stalls++; stalls > 8 {
				return out, core.Violate("C09/no-progress", "no progress after %d rows", len(out))
			}
		} else {
			stalls = 0
		}
	}
}

func c09Check(sc *C09Scenario, cmp func(parquet.Row, parquet.Row) int, inputs [][]parquet.Row, got []parquet.Row) *core.Violation {
	tag := func(t string) string {
		d := ""
		if sc.Dedupe {
			d = "-dedupe"
		}
		return "C09/" + t + "/" + sc.Subject + "-" + sc.Consume + d
	}
	total := 0
	for _, in := range inputs {
		total += len(in)
	}
	// 1. sorted
	for i := 1; i < len(got); i++ {
		cv := cmp(got[i-1], got[i])
		if cv > 0 || (sc.Dedupe && cv == 0) {
			what := "out of order"
			if cv == 0 {
				what = "duplicate key kept"
			}
			return core.Violate(tag("not-sorted"), "%s at output rows %d,%d: %s | %s", what, i-1, i, fmtKeyed(got[i-1]), fmtKeyed(got[i]))
		}
	}
	// 2. every output row is exactly one input row; per-input order preserved
	seen := make([][]bool, len(inputs))
	last := make([]int, len(inputs))
	for i := range inputs {
		seen[i] = make([]bool, len(inputs[i]))
		last[i] = -1
	}
	for oi, row := range got {
		src, seq, ok := rowIdent(row)
		if !ok || src >= len(inputs) || seq >= len(inputs[src]) {
			return core.Violate(tag("foreign-row"), "output row %d does not identify an input row: %s", oi, fmtKeyed(row))
		}
		if d := gen.RowDiff(inputs[src][seq], row); d != "" {
			return core.Violate(tag("row-altered"), "output row %d (input %d row %d): %s", oi, src, seq, d)
		}
		if seen[src][seq] {
			return core.Violate(tag("row-duplicated"), "input %d row %d appears twice in the output", src, seq)
		}
		seen[src][seq] = true
		if seq < last[src] {
			return core.Violate(tag("input-order-not-preserved"), "input %d: row %d delivered after row %d", src, seq, last[src])
		}
		last[src] = seq
	}
	if !sc.Dedupe {
		if len(got) != total {
			for i := range seen {
				for j, s := range seen[i] {
					if !s {
						return core.Violate(tag("row-missing"), "output has %d of %d rows; first missing: input %d row %d %s", len(got), total, i, j, fmtKeyed(inputs[i][j]))
					}
				}
			}
			return core.Violate(tag("row-missing"), "output has %d rows, inputs have %d", len(got), total)
		}
		return nil
	}
	// dedupe: exactly one row per distinct key of the union
	var all []parquet.Row
	for _, in := range inputs {
		all = append(all, in...)
	}
	sort.SliceStable(all, func(a, b int) bool { return cmp(all[a], all[b]) < 0 })
	distinct := 0
	for i := range all {
		if i == 0 || cmp(all[i-1], all[i]) != 0 {
			distinct++
		}
	}
	if len(got) != distinct {
		return core.Violate(tag("dedupe-count"), "output has %d rows, the inputs have %d distinct keys", len(got), distinct)
	}
	return nil
}

func fmtKeyed(row parquet.Row) string {
	s := ""
	for _, v := range row {
		switch v.Column() {
		case kcolK, kcolK2, kcolSrc, kcolSeq:
			s += fmt.Sprintf("%s=%v ", []string{"k", "k2", "f", "src", "seq"}[v.Column()], v)
		}
	}
	return "{" + s + "}"
}
