package props

import (
	"crypto/sha256"
	"encoding/hex"
	"errors"
	"fmt"
	"io"
	"reflect"
	"runtime"
	"strings"
	"sync/atomic"

	"github.com/parquet-go/parquet-go"

	"pqsim/core"
	"pqsim/env"
	"pqsim/gen"
	"pqsim/sched"
	"pqsim/tape"
)

// C15 — documented concurrent use behaves like some serial execution
// (E3: seeded one-at-a-time scheduler; race detector build).

type C15Task struct {
	Kind    string    `json:"kind"` // roundtrip | rows | pages | index | bloom | column | rowgroup | async-rows
	Plan    WritePlan `json:"plan,omitempty"`
	RG      int       `json:"rg,omitempty"`
	Col     int       `json:"col,omitempty"`
	Batches []int     `json:"batches,omitempty"`
	Seeks   []int64   `json:"seeks,omitempty"`
	Lo      int       `json:"lo,omitempty"`
	Hi      int       `json:"hi,omitempty"`
}

type C15Scenario struct {
	Workload  string     `json:"workload"` // mixed | onefile | colwriters | rowgroups | async
	Shared    WritePlan  `json:"shared"`   // the shared file / writer of the workload
	F         gen.FOpts  `json:"file_opts"`
	Tasks     []C15Task  `json:"tasks"`
	Pools     PoolPolicy `json:"pools"`
	PoolYield bool       `json:"pool_yield"`
	SchedSeed uint64     `json:"sched_seed"`
	Sched     []int      `json:"sched,omitempty"`
	// rowgroups workload: the first Pre rows are given to the parent writer (its
	// column writers when PreCols, WriteRows otherwise) and left pending before
	// the concurrent row groups are filled and committed
	Pre     int  `json:"pre,omitempty"`
	PreCols bool `json:"pre_cols,omitempty"`
}

func (s *C15Scenario) SchedPtr() *[]int { return &s.Sched }

type C15 struct{}

func (C15) ID() string { return "C15" }

func (C15) Info() core.Info {
	return core.Info{
		Level: "exploration",
		Rule: "one run = one workload of 2-4 tasks using the library in a documented concurrent way - W1 independent writer->reader round trips sharing the process-wide pools, schema cache and codec values; W2 several goroutines on one opened File (opened with SkipPageIndex/SkipBloomFilters so indexes and filters are loaded lazily and raced): rows, pages, column/offset index, bloom checks; W3 one goroutine per ColumnWriter then Close; W4 BeginRowGroup row groups filled concurrently and committed in order, in half of the runs after rows were left pending in the parent writer (through its column writers or WriteRows); W5 ReadModeAsync readers with seeks and Close - executed once serially and once under the seeded scheduler (all goroutines in one synctest bubble, parked at every simulated ReadAt/Write/BufferPool call, at memory-pool Get/Put in half of the runs, and between API calls; the PRNG picks who proceeds). " +
			"Oracle: every task's result (file bytes digest, rows digest, index digest, bloom answers) equals the serial execution's; no panic; no deadlock (no runnable goroutine while tasks are unfinished); no simulated-buffer misuse; no object put into a process-wide pool while already in it (page readers are closed twice in half of the page tasks); the schema of a task's Go type derived with a StructTag replacement carries the renamed column and the one derived without does not (process-wide schema cache); and in the race build no race report (scheduler hand-offs are hidden from the detector). distinct = distinct (workload, task kinds, released-goroutine sequence) signatures; non-trivial = >= 2 tasks and >= 10 scheduler decisions",
		Real:   []string{"parquet-go File/reader/writer/ColumnWriter/ConcurrentRowGroupWriter/asyncPages/schema cache/codecs (all real code from /repo), real goroutines"},
		Stubs:  []string{"goroutine scheduling (seeded one-at-a-time scheduler over a synctest bubble)", "source io.ReaderAt, destination io.Writer, BufferPool (gated stubs)", "internal/memory.Pool (deterministic H1/H2, optional yield point)"},
		Assume: []string{"interleavings are explored at seam granularity; races between two plain memory accesses without a seam in between are found by the race detector's happens-before analysis, not by producing the bad value", "the select between two ready channel cases in asyncPages is decided by the Go runtime, not by the scheduler", "only documented patterns are generated (never two goroutines on one reader, buffer or row group writer)"},
	}
}

func (C15) Budget(tier string) core.Budget {
	if tier == "thorough" {
		return core.Budget{Runs: 30000, MaxWall: 25 * 60e9, Race: 6000}
	}
	return core.Budget{Runs: 1600, MaxWall: 45e9, Race: 320}
}

func (C15) New() any { return &C15Scenario{} }

func (C15) Gen(t *tape.Tape, tier string) any {
	sc := &C15Scenario{}
	shapes := []gen.Shape{gen.ShapeFlat, gen.ShapeNested, gen.ShapeLogical, gen.ShapeDyn, gen.ShapeGen}
	sc.Workload = []string{"mixed", "onefile", "colwriters", "rowgroups", "async"}[t.Weighted(3, 4, 2, 2, 3)]
	sc.Shared = GenWritePlan(t, shapes, 300)
	if sc.Shared.NRows < 8 {
		sc.Shared.NRows = 8 + t.Draw(60)
		sc.Shared.Ops = genOps(t, sc.Shared.NRows)
	}
	sc.Shared.W.WriteBufferSize = -1
	sc.Shared.WriterKind = gen.WGeneric
	// the library's own page buffer pool (on the deterministic H1 pool): the
	// simulated one keeps unsynchronised bookkeeping that the race detector
	// would report as soon as two column writers share it
	sc.Shared.W.Pool = env.PoolCfg{}
	sh := gen.ShapeByName(sc.Shared.Shape)
	if t.Bool() {
		gen.GenBloom(t, sh, &sc.Shared.W)
		sc.Shared.W.BloomDeferred = false
	}
	sc.F = gen.GenFOpts(t)
	sc.F.SkipPageIndex = t.Chance(2, 3)
	sc.F.SkipBloomFilters = t.Chance(2, 3)
	sc.F.Optimistic = false
	sc.Pools = GenPoolPolicy(t)
	sc.PoolYield = t.Bool()
	sc.SchedSeed = t.Seed()
	n := t.Range(2, 4)
	ncols := len(sh.Schema().Columns())
	for i := 0; i < n; i++ {
		var k C15Task
		switch sc.Workload {
		case "mixed":
			k.Kind = "roundtrip"
			k.Plan = GenWritePlan(t, shapes, 200)
			k.Plan.W.Pool = env.PoolCfg{}
			if t.Chance(1, 3) {
				k.Plan.Shape = sc.Shared.Shape // identical type: shared schema cache entry
			}
			k.Batches = genBatches(t)
		case "onefile":
			k.Kind = []string{"rows", "pages", "index", "bloom"}[t.Draw(4)]
			k.RG = t.Draw(4)
			k.Col = t.Draw(ncols)
			k.Batches = genBatches(t)
		case "async":
			k.Kind = "async-rows"
			k.RG = t.Draw(4)
			k.Batches = genBatches(t)
			for j := t.Draw(4); j > 0; j-- {
				k.Seeks = append(k.Seeks, int64(t.Draw(sc.Shared.NRows+1)))
			}
		}
		sc.Tasks = append(sc.Tasks, k)
	}
	switch sc.Workload {
	case "colwriters":
		sc.Tasks = nil
		for ci := 0; ci < ncols; ci++ {
			sc.Tasks = append(sc.Tasks, C15Task{Kind: "column", Col: ci})
		}
	case "rowgroups":
		sc.Shared.W.MaxRowsPerGroup = 0 // a concurrent row group must hold its whole share
		sc.Tasks = nil
		k := t.Range(2, 4)
		if t.Bool() {
			sc.Pre = t.Range(1, sc.Shared.NRows/2)
			sc.PreCols = t.Bool()
		}
		rest := sc.Shared.NRows - sc.Pre
		for i := 0; i < k; i++ {
			sc.Tasks = append(sc.Tasks, C15Task{Kind: "rowgroup", Lo: sc.Pre + i*rest/k, Hi: sc.Pre + (i+1)*rest/k})
		}
	case "async":
		sc.F.Async = true
	}
	return sc
}

// gatedFile is a stateless io.ReaderAt whose every call is a yield point.
var freshBufferSize atomic.Int64

type gatedFile struct {
	data []byte
	s    **sched.S
	eof  bool
}

func (g *gatedFile) ReadAt(p []byte, off int64) (int, error) {
	if s := *g.s; s != nil && !inSyncOnce() {
		s.Yield("readat", fmt.Sprintf("%d+%d", off, len(p)))
	}
	if off >= int64(len(g.data)) {
		return 0, io.EOF
	}
	n := copy(p, g.data[off:])
	if n < len(p) || (g.eof && int(off)+n == len(g.data)) {
		return n, io.EOF
	}
	return n, nil
}

func (g *gatedFile) Size() int64 { return int64(len(g.data)) }

// gatedSink collects bytes; every Write is a yield point. One per task.
type gatedSink struct {
	buf []byte
	s   **sched.S
}

func (g *gatedSink) Write(p []byte) (int, error) {
	if s := *g.s; s != nil {
		s.Yield("write", fmt.Sprint(len(p)))
	}
	g.buf = append(g.buf, p...)
	return len(p), nil
}

// inSyncOnce reports whether the caller runs inside sync.Once.Do: parking
// there would leave the Once's mutex held, and a goroutine blocked on a mutex
// never counts as durably blocked for the bubble.
func inSyncOnce() bool {
	var pcs [48]uintptr
	n := runtime.Callers(3, pcs[:])
	frames := runtime.CallersFrames(pcs[:n])
	for {
		f, more := frames.Next()
		if strings.HasPrefix(f.Function, "sync.(*Once).do") {
			return true
		}
		if !more {
			return false
		}
	}
}

func shortHash(b []byte) string {
	h := sha256.Sum256(b)
	return hex.EncodeToString(h[:8])
}

func rowsDigest(rows []parquet.Row) string {
	h := sha256.New()
	for _, r := range rows {
		for _, v := range r {
			fmt.Fprintf(h, "%d/%d/%d/%v/", v.Column(), v.RepetitionLevel(), v.DefinitionLevel(), v.Kind())
			if !v.IsNull() {
				h.Write(v.Bytes())
			}
		}
		h.Write([]byte{0})
	}
	return hex.EncodeToString(h.Sum(nil)[:8])
}

type c15exec struct {
	sc      *C15Scenario
	S       *sched.S // nil in the serial execution
	results []string
	errs    []string
}

// c15Execute runs the workload once; with concurrent=false the tasks run one
// after the other on the calling goroutine.
func c15Execute(sc *C15Scenario, c *core.Ctx, concurrent bool) (*c15exec, sched.Result, *core.Violation) {
	sc.Pools.Install()
	ex := &c15exec{sc: sc, results: make([]string, len(sc.Tasks)), errs: make([]string, len(sc.Tasks))}
	sp := &ex.S
	sh, data := sc.Shared.MakeData()
	yield := func(kind, key string) {
		if s := *sp; s != nil {
			s.Yield(kind, key)
		}
	}

	// shared objects
	var sharedBytes []byte
	var sharedFile *parquet.File
	var sharedWriter *parquet.GenericWriter[any]
	var sharedSink *gatedSink
	var rgWriters []*parquet.ConcurrentRowGroupWriter
	var colWriters []*parquet.ColumnWriter
	model := data.Rows()
	switch sc.Workload {
	case "onefile", "async":
		res := sc.Shared.Execute(core.NewCtx("x"), nil, data)
		if res.FirstErr != nil {
			return nil, sched.Result{}, core.Violate("C15/setup-write-error", "%v", res.FirstErr)
		}
		sharedBytes = res.Sink.Bytes()
	}
	setup := func() *core.Violation {
		switch sc.Workload {
		case "onefile", "async":
			gf := &gatedFile{data: sharedBytes, s: sp, eof: sc.F.EOFAtEnd}
			f, err := parquet.OpenFile(gf, int64(len(sharedBytes)), sc.F.Options()...)
			if err != nil {
				return core.Violate("C15/setup-open-error", "%v", err)
			}
			sharedFile = f
		case "colwriters", "rowgroups":
			e := &gen.Env{}
			sharedSink = &gatedSink{s: sp}
			opts := append([]parquet.WriterOption{sh.Schema()}, sc.Shared.W.Options(e)...)
			sharedWriter = parquet.NewGenericWriter[any](sharedSink, opts...)
			if sc.Workload == "colwriters" {
				colWriters = sharedWriter.ColumnWriters()
			} else {
				// rows pending in the parent writer when the concurrent row groups are
				// committed come first in the file
				if sc.Pre > 0 && sc.PreCols {
					for ci, cw := range sharedWriter.ColumnWriters() {
						vals := columnValues(data.Rows()[:sc.Pre], ci)
						chunk := make([]parquet.Value, len(vals))
						for i := range chunk {
							chunk[i] = vals[i].Clone()
						}
						if _, err := cw.WriteRowValues(chunk); err != nil {
							return core.Violate("C15/setup-write-error/rowgroups", "ColumnWriter.WriteRowValues: %v", err)
						}
					}
				} else if sc.Pre > 0 {
					if _, err := sharedWriter.WriteRows(gen.CloneRows(data.Rows()[:sc.Pre])); err != nil {
						return core.Violate("C15/setup-write-error/rowgroups", "WriteRows: %v", err)
					}
				}
				for range sc.Tasks {
					rgWriters = append(rgWriters, sharedWriter.BeginRowGroup())
				}
			}
		}
		return nil
	}

	run1 := func(ti int) {
		k := sc.Tasks[ti]
		fail := func(format string, args ...any) { ex.errs[ti] = fmt.Sprintf(format, args...) }
		switch k.Kind {
		case "roundtrip":
			tsh, tdata := k.Plan.MakeData()
			e := &gen.Env{}
			sink := &gatedSink{s: sp}
			w := tsh.NewWriter(k.Plan.WriterKind, sink, k.Plan.W.Options(e)...)
			wr := &Written{Shape: tsh, Data: tdata, W: w, Env: e}
			cx := core.NewCtx("x")
			pos := 0
			for _, op := range k.Plan.Ops {
				yield("api", "op")
				switch op.Op {
				case "write":
					hi := min(pos+op.N, tdata.Len())
					if _, err := w.Write(tdata, pos, hi); err != nil {
						fail("write: %v", err)
						return
					}
					pos = hi
				case "flush":
					if err := w.Flush(); err != nil {
						fail("flush: %v", err)
						return
					}
				case "sortedrg":
					hi := min(pos+op.N, tdata.Len())
					if err := writeSortedRowGroup(w, tsh, tdata, pos, hi); err != nil {
						fail("write sorted row group: %v", err)
						return
					}
					pos = hi
				}
			}
			_ = wr
			yield("api", "close")
			if err := w.Close(); err != nil {
				fail("close: %v", err)
				return
			}
			if an := e.PoolAnomalies(); len(an) > 0 {
				fail("buffer pool misuse: %s", an[0])
				return
			}
			gf := &gatedFile{data: sink.buf, s: sp}
			// a read buffer size nobody used before: the process-wide table of
			// buffer pools gets a new entry while the other tasks look theirs up
			f, err := parquet.OpenFile(gf, int64(len(sink.buf)), parquet.ReadBufferSize(4096+8*int(freshBufferSize.Add(1))))
			if err != nil {
				fail("open: %v", err)
				return
			}
			var got []parquet.Row
			b := &batches{sizes: k.Batches}
			for _, rg := range f.RowGroups() {
				rows := rg.Rows()
				for {
					yield("api", "readrows")
					buf := make([]parquet.Row, b.next())
					n, err := rows.ReadRows(buf)
					for i := 0; i < n; i++ {
						got = append(got, buf[i].Clone())
					}
					if err != nil {
						if !errors.Is(err, io.EOF) {
							fail("read: %v", err)
						}
						break
					}
				}
				rows.Close()
			}
			_ = cx
			if !tsh.HasMap() {
				tm := tdata.Rows()
				if len(got) != len(tm) {
					fail("read %d rows, wrote %d", len(got), len(tm))
					return
				}
				for i := range tm {
					if d := gen.RowDiff(tm[i], got[i]); d != "" {
						fail("row %d: %s", i, d)
						return
					}
				}
			}
			// the same file through the typed reader (struct fast path for the fixed
			// shapes, Schema.Reconstruct for the dynamic ones): schema caches and the
			// process-wide value buffers are shared with the other tasks
			tr := tsh.NewReader(&gatedFile{data: sink.buf, s: sp})
			typed := 0
			for {
				yield("api", "typed-read")
				vals, _, err := tr.Read(b.next())
				for _, v := range vals {
					if typed >= tdata.Len() {
						fail("typed read delivers more than the %d rows written", tdata.Len())
						tr.Close()
						return
					}
					if !tsh.EqualValues(tdata.Value(typed), v) {
						fail("typed row %d differs: wrote %+v read %+v", typed, tdata.Value(typed), v)
						tr.Close()
						return
					}
					typed++
				}
				if err != nil {
					if !errors.Is(err, io.EOF) {
						fail("typed read: %v", err)
					}
					break
				}
				if len(vals) == 0 {
					fail("typed read returned (0, nil)")
					break
				}
			}
			tr.Close()
			if typed != tdata.Len() && ex.errs[ti] == "" {
				fail("typed read delivered %d of %d rows", typed, tdata.Len())
				return
			}
			// the schema of the same Go type derived with and without a struct tag
			// replacement, while the other tasks use the process-wide schema cache:
			// the option-specific schema renames its column, the plain one does not
			if tdata.Len() > 0 && ex.errs[ti] == "" {
				yield("api", "schemaof")
				if msg := schemaTagCheck(tdata.Value(0), len(k.Batches)%2 == 0); msg != "" {
					fail("%s", msg)
					return
				}
			}
			bytesPart := shortHash(sink.buf)
			if tsh.HasMap() {
				bytesPart = "map" // map iteration order is excepted
			}
			ex.results[ti] = "bytes=" + bytesPart + " rows=" + fmt.Sprint(len(got)) + " typed=" + fmt.Sprint(typed)
		case "rows", "async-rows":
			rgs := sharedFile.RowGroups()
			if len(rgs) == 0 {
				ex.results[ti] = "empty"
				return
			}
			g := k.RG % len(rgs)
			first := 0
			for i := 0; i < g; i++ {
				first += int(rgs[i].NumRows())
			}
			n := int(rgs[g].NumRows())
			rows := rgs[g].Rows()
			b := &batches{sizes: k.Batches}
			cursor := 0
			var got []parquet.Row
			seeks := append([]int64(nil), k.Seeks...)
			for step := 0; ; step++ {
				if len(seeks) > 0 && step%2 == 1 {
					to := seeks[0] % int64(n+1)
					seeks = seeks[1:]
					yield("api", "seek")
					if err := rows.SeekToRow(to); err != nil {
						fail("seek %d: %v", to, err)
						rows.Close()
						return
					}
					cursor = int(to)
					got = got[:0]
				}
				yield("api", "readrows")
				buf := make([]parquet.Row, b.next())
				m, err := rows.ReadRows(buf)
				for i := 0; i < m; i++ {
					if cursor+i >= n {
						fail("row beyond the row group")
						rows.Close()
						return
					}
					if d := gen.RowDiff(model[first+cursor+i], buf[i]); d != "" {
						fail("row %d of row group %d: %s", cursor+i, g, d)
						rows.Close()
						return
					}
					got = append(got, buf[i].Clone())
				}
				cursor += m
				if err != nil {
					if !errors.Is(err, io.EOF) {
						fail("read: %v", err)
					} else if cursor != n {
						fail("io.EOF at row %d of %d", cursor, n)
					}
					break
				}
			}
			yield("api", "close")
			if err := rows.Close(); err != nil {
				fail("close: %v", err)
				return
			}
			ex.results[ti] = fmt.Sprintf("rg=%d rows=%s end=%d", g, rowsDigest(got), cursor)
		case "pages":
			rgs := sharedFile.RowGroups()
			if len(rgs) == 0 {
				ex.results[ti] = "empty"
				return
			}
			g := k.RG % len(rgs)
			ccs := rgs[g].ColumnChunks()
			cc := ccs[k.Col%len(ccs)]
			pages := cc.Pages()
			total := 0
			h := sha256.New()
			for {
				yield("api", "readpage")
				p, err := pages.ReadPage()
				if err != nil {
					if !errors.Is(err, io.EOF) {
						fail("readpage: %v", err)
					}
					break
				}
				buf := make([]parquet.Value, p.NumValues())
				m, _ := p.Values().ReadValues(buf)
				for _, v := range buf[:m] {
					fmt.Fprintf(h, "%d/%d/", v.RepetitionLevel(), v.DefinitionLevel())
					if !v.IsNull() {
						h.Write(v.Bytes())
					}
				}
				total += m
				parquet.Release(p)
			}
			pages.Close()
			if (k.RG+k.Col)%2 == 0 {
				// closing twice is allowed; what the page reader borrowed from the
				// process-wide pools goes back once
				pages.Close()
			}
			ex.results[ti] = fmt.Sprintf("rg=%d col=%d values=%d %x", g, k.Col, total, h.Sum(nil)[:8])
		case "index":
			rgs := sharedFile.RowGroups()
			if len(rgs) == 0 {
				ex.results[ti] = "empty"
				return
			}
			g := k.RG % len(rgs)
			ccs := rgs[g].ColumnChunks()
			h := sha256.New()
			for rep := 0; rep < 2; rep++ {
				for ci, cc := range ccs {
					yield("api", "index")
					ci1, err := cc.ColumnIndex()
					if err != nil && !errors.Is(err, parquet.ErrMissingColumnIndex) {
						fail("ColumnIndex: %v", err)
						return
					}
					oi1, err := cc.OffsetIndex()
					if err != nil && !errors.Is(err, parquet.ErrMissingOffsetIndex) {
						fail("OffsetIndex: %v", err)
						return
					}
					// a second lookup must give the very same object (one pointer per lazily loaded index)
					ci2, _ := cc.ColumnIndex()
					oi2, _ := cc.OffsetIndex()
					if ci1 != ci2 || oi1 != oi2 {
						fail("column %d: two lookups returned different index objects", ci)
						return
					}
					if oi1 != nil {
						for pi := 0; pi < oi1.NumPages(); pi++ {
							fmt.Fprintf(h, "%d:%d:%d|", oi1.Offset(pi), oi1.CompressedPageSize(pi), oi1.FirstRowIndex(pi))
						}
					}
					if ci1 != nil {
						for pi := 0; pi < ci1.NumPages(); pi++ {
							fmt.Fprintf(h, "%v:%d:%x:%x|", ci1.NullPage(pi), ci1.NullCount(pi), ci1.MinValue(pi).Bytes(), ci1.MaxValue(pi).Bytes())
						}
					}
				}
			}
			ex.results[ti] = fmt.Sprintf("rg=%d index=%x", g, h.Sum(nil)[:8])
		case "bloom":
			rgs := sharedFile.RowGroups()
			if len(rgs) == 0 {
				ex.results[ti] = "empty"
				return
			}
			g := k.RG % len(rgs)
			first := 0
			for i := 0; i < g; i++ {
				first += int(rgs[i].NumRows())
			}
			rows := model[first : first+int(rgs[g].NumRows())]
			answers := ""
			for ci, cc := range rgs[g].ColumnChunks() {
				yield("api", "bloom")
				bf := cc.BloomFilter()
				if bf == nil {
					continue
				}
				vals := columnValues(rows, ci)
				for vi, v := range vals {
					if v.IsNull() || vi%3 != 0 {
						continue
					}
					ok, err := bf.Check(v)
					if err != nil {
						fail("Check: %v", err)
						return
					}
					if !ok {
						fail("bloom filter of column %d reports a written value absent", ci)
						return
					}
					answers += "1"
				}
			}
			ex.results[ti] = fmt.Sprintf("rg=%d checks=%d", g, len(answers))
		case "column":
			cw := colWriters[k.Col]
			vals := columnValues(model, k.Col)
			// whole rows per call, in a few chunks
			pos := 0
			for pos < len(vals) {
				end := min(pos+97, len(vals))
				for end < len(vals) && vals[end].RepetitionLevel() != 0 {
					end++
				}
				yield("api", "writerowvalues")
				chunk := make([]parquet.Value, end-pos)
				for i := range chunk {
					chunk[i] = vals[pos+i].Clone()
				}
				if _, err := cw.WriteRowValues(chunk); err != nil {
					fail("WriteRowValues: %v", err)
					return
				}
				pos = end
			}
			yield("api", "colclose")
			if err := cw.Close(); err != nil {
				fail("ColumnWriter.Close: %v", err)
				return
			}
			ex.results[ti] = fmt.Sprintf("col=%d values=%d", k.Col, len(vals))
		case "rowgroup":
			rg := rgWriters[ti]
			pos := k.Lo
			for pos < k.Hi {
				end := min(pos+53, k.Hi)
				yield("api", "rgwrite")
				if _, err := rg.WriteRows(gen.CloneRows(model[pos:end])); err != nil {
					fail("WriteRows: %v", err)
					return
				}
				pos = end
			}
			ex.results[ti] = fmt.Sprintf("rows=%d..%d", k.Lo, k.Hi)
		}
	}

	finish := func() *core.Violation {
		switch sc.Workload {
		case "colwriters":
			if err := sharedWriter.Close(); err != nil {
				return core.Violate("C15/close-error/colwriters", "%v", err)
			}
		case "rowgroups":
			for i, rg := range rgWriters {
				if _, err := rg.Commit(); err != nil {
					return core.Violate("C15/commit-error/rowgroups", "row group %d: %v", i, err)
				}
			}
			if err := sharedWriter.Close(); err != nil {
				return core.Violate("C15/close-error/rowgroups", "%v", err)
			}
		default:
			return nil
		}
		// the shared output must read back as the model
		sf := env.NewFile(nil, sharedSink.buf)
		res := drive(core.NewCtx("x"), "C15", sf, gen.FOpts{}, "rowgroups", sh, data, &batches{})
		if res.Wrong != nil {
			res.Wrong.Class = "C15/wrong-data/" + sc.Workload
			return res.Wrong
		}
		if res.Err != nil || !res.Complete {
			return core.Violate("C15/output-unreadable/"+sc.Workload, "err=%v complete=%v delivered=%d", res.Err, res.Complete, res.Delivered)
		}
		ex.results = append(ex.results, "shared-bytes="+shortHash(sharedSink.buf))
		return nil
	}

	if !concurrent {
		if v := setup(); v != nil {
			return nil, sched.Result{}, v
		}
		for ti := range sc.Tasks {
			run1(ti)
			if ex.errs[ti] != "" {
				return ex, sched.Result{}, nil
			}
		}
		return ex, sched.Result{}, finish()
	}

	var replay []int
	if sc.Sched != nil {
		replay = sc.Sched
	}
	dec := sched.NewDecisions(sc.SchedSeed, replay)
	var setupV, finishV *core.Violation
	tasks := make([]func(*sched.S), len(sc.Tasks))
	for ti := range sc.Tasks {
		ti := ti
		tasks[ti] = func(*sched.S) { run1(ti) }
	}
	res := sched.Run(core.T, dec, 60000, nil, func(s *sched.S) {
		ex.S = s
		if sc.PoolYield {
			var poolOps atomic.Int64
			parquet.VerifSetPoolYield(func(put bool) {
				// every 8th pool operation is a yield point: parking at all of
				// them makes runs of a few hundred rows tens of thousands of decisions long
				if poolOps.Add(1)%8 != 0 || inSyncOnce() {
					return
				}
				if put {
					s.Yield("pool", "put")
				} else {
					s.Yield("pool", "get")
				}
			})
		}
		setupV = setup()
	}, tasks, func() {
		parquet.VerifSetPoolYield(nil)
		for _, e := range ex.errs {
			if e != "" {
				return
			}
		}
		finishV = finish()
	})
	parquet.VerifSetPoolYield(nil)
	ex.S = nil
	if setupV != nil {
		return nil, res, setupV
	}
	return ex, res, finishV
}

func (C15) Run(s any, c *core.Ctx) core.Outcome {
	sc := s.(*C15Scenario)
	out := core.Outcome{}
	c.Unstable() // the runtime decides select ties and which spawned goroutine starts first; decisions are recorded, hashes not compared
	serial, _, v := c15Execute(sc, c, false)
	if v != nil {
		v.Class += "/serial"
		out.Violation = v
		return out
	}
	for ti, e := range serial.errs {
		if e != "" {
			out.Violation = core.Violate("C15/serial-task-error/"+sc.Tasks[ti].Kind, "task %d failed in the serial execution: %s", ti, e)
			return out
		}
	}
	if v := c15DoublePut(sc, "serial"); v != nil {
		out.Violation = v
		return out
	}
	conc, res, v := c15Execute(sc, c, true)
	sc.Sched = res.Decisions
	c.Inter = res.Inter
	c.Steps += res.Steps
	c.ProbeN("sched-decisions", res.Steps)
	kinds := ""
	for _, k := range sc.Tasks {
		kinds += k.Kind[:2]
	}
	out.Sig = fmt.Sprintf("%s|%s|%x", sc.Workload, kinds, res.Inter)
	out.Nontrivial = len(sc.Tasks) >= 2 && res.Steps >= 10
	out.Sample = map[string]any{"workload": sc.Workload, "tasks": kinds, "decisions": res.Steps, "pool_yield": sc.PoolYield, "serial_results": serial.results}
	if res.Panic != nil {
		out.Violation = core.Violate("C15/panic/"+sc.Workload, "task %d panicked under the scheduler: %v\n%s", res.PanicTask, res.Panic, core.IfStack(res.Stack))
		return out
	}
	if res.Deadlock != "" {
		out.Violation = core.Violate("C15/deadlock/"+sc.Workload, "%s (after %d decisions)", res.Deadlock, res.Steps)
		return out
	}
	if v := c15DoublePut(sc, "concurrent"); v != nil {
		out.Violation = v
		return out
	}
	if res.CutShort {
		// a harness limit, not a verdict: a genuine livelock also trips the driver's watchdog
		c.Probe("cut-short-at-decision-cap")
		return out
	}
	if v != nil {
		out.Violation = v
		return out
	}
	for ti, e := range conc.errs {
		if e != "" {
			out.Violation = core.Violate("C15/task-error/"+sc.Workload+"/"+sc.Tasks[ti].Kind, "task %d failed only when interleaved: %s", ti, e)
			return out
		}
	}
	for ti := range serial.results {
		if ti < len(conc.results) && serial.results[ti] != conc.results[ti] {
			kind := "shared"
			if ti < len(sc.Tasks) {
				kind = sc.Tasks[ti].Kind
			}
			out.Violation = core.Violate("C15/differs-from-serial/"+sc.Workload+"/"+kind, "result %d: interleaved %q, serial %q", ti, conc.results[ti], serial.results[ti])
			return out
		}
	}
	return out
}

// schemaTagCheck derives the schema of v's type with a struct tag replacement
// that renames its first column, and without: the first must carry the new
// name, the second must not (the process-wide schema cache is keyed by Go type
// and must only ever hold and serve plain schemas).
func schemaTagCheck(v any, taggedFirst bool) string {
	t := reflect.TypeOf(v)
	for t.Kind() == reflect.Pointer {
		t = t.Elem()
	}
	if t.Kind() != reflect.Struct {
		return ""
	}
	const renamed = "zz_renamed_by_option"
	for i := 0; i < t.NumField(); i++ {
		f := t.Field(i)
		if f.Anonymous || !f.IsExported() {
			continue
		}
		old, has := f.Tag.Lookup("parquet")
		name, rest, _ := strings.Cut(old, ",")
		if name == "-" {
			continue
		}
		if name == "" {
			name = f.Name
		}
		repl := renamed
		if rest != "" {
			repl += "," + rest
		}
		tag := string(f.Tag)
		if has {
			tag = strings.Replace(tag, `parquet:"`+old+`"`, `parquet:"`+repl+`"`, 1)
		} else {
			tag = strings.TrimSpace(tag + ` parquet:"` + repl + `"`)
		}
		opt := parquet.StructTag(reflect.StructTag(tag), f.Name)
		var tagged, plain *parquet.Schema
		if taggedFirst {
			tagged = parquet.SchemaOf(v, opt)
			plain = parquet.SchemaOf(v)
		} else {
			plain = parquet.SchemaOf(v)
			tagged = parquet.SchemaOf(v, opt)
		}
		hasField := func(s *parquet.Schema, n string) bool {
			for _, sf := range s.Fields() {
				if sf.Name() == n {
					return true
				}
			}
			return false
		}
		switch {
		case !hasField(tagged, renamed):
			return fmt.Sprintf("SchemaOf(%s, StructTag(%q, %q)) has no column %q: %s", t, tag, f.Name, renamed, tagged)
		case hasField(tagged, name):
			return fmt.Sprintf("SchemaOf(%s, StructTag(%q, %q)) still has column %q: %s", t, tag, f.Name, name, tagged)
		case hasField(plain, renamed):
			return fmt.Sprintf("SchemaOf(%s) without options has the column %q of a schema derived with a struct tag replacement: %s", t, renamed, plain)
		case !hasField(plain, name):
			return fmt.Sprintf("SchemaOf(%s) without options has no column %q: %s", t, name, plain)
		}
		return ""
	}
	return ""
}

// c15DoublePut reports an object that was handed back to a process-wide pool
// while it was already in it (the H1 pool counts these and keeps one copy; the
// shipped sync.Pool would hand the object to two owners).
func c15DoublePut(sc *C15Scenario, which string) *core.Violation {
	if _, _, _, dp, _ := parquet.VerifPoolStats(); dp > 0 {
		return core.Violate("C15/pool-double-put/"+sc.Workload, "%d object(s) were put into a process-wide pool while already in it (%s execution): the next two takers would share one object", dp, which)
	}
	return nil
}
