package props

import (
	"fmt"

	"github.com/parquet-go/parquet-go"

	"pqsim/core"
	"pqsim/env"
	"pqsim/gen"
	"pqsim/tape"
)

// C07 — bloom filters never answer absent for a written value (E1: the
// simulator owns how the filter came to be and how it is read back).

type C07Scenario struct {
	Subject string     `json:"subject"` // writer | reset | rowgroup-buffer | rowgroup-file
	Plan    WritePlan  `json:"plan"`
	Pools   PoolPolicy `json:"pools"`
	F       gen.FOpts  `json:"file_opts"`
	Prior   *Life      `json:"prior,omitempty"`
	// rowgroup-file: options of the source file (the destination uses Plan.W)
	SrcW       gen.WOpts `json:"src_w"`
	SameOpts   bool      `json:"same_opts"`
	BufferKind string    `json:"buffer_kind,omitempty"`
}

type C07 struct{}

func (C07) ID() string { return "C07" }

func (C07) Info() core.Info {
	return core.Info{
		Level: "exploration",
		Rule: "one run = one seeded file with bloom filters on a random non-empty subset of leaf columns (every physical type of the catalogue: boolean, int32, int64, int96, float, double, byte array, FLBA(16), FLBA(5)), whose filters came to be through a simulator-chosen history: dictionary flush, re-reading encoded pages from a simulated BufferPool (short reads, WriterTo/ReaderFrom faces), dictionary fallback mid row group, Reset and reuse of the writer, row-group splits, WriteRowGroup from a buffer or from a file (verbatim copy / re-encode), deferred and gzip-compressed filters; read back prefetched or lazily through a simulated ReaderAt. Oracle: every non-null written value of every filtered column chunk Checks true. " +
			"distinct = distinct (subject, shape, options) signatures; non-trivial = >= 1 filter checked with >= 1 value",
		Real:   []string{"parquet-go writer (all bloom filter construction paths), WriteRowGroup paths, file reader and bloom filter Check (all real code from /repo)"},
		Stubs:  []string{"destination io.Writer (SimSink)", "source io.ReaderAt (SimFile; every lazy Check is I/O on it)", "page / deferred-bloom BufferPool (SimBufferPool)", "internal/memory.Pool (deterministic H1/H2)"},
		Assume: []string{"the value-set dimension is seeded generation", "a configured filter that is absent from the file is counted (probe) but not reported here: absence is not a false negative (C11 checks presence)"},
	}
}

func (C07) Budget(tier string) core.Budget {
	if tier == "thorough" {
		return core.Budget{Runs: 40000, MaxWall: 15 * 60e9}
	}
	return core.Budget{Runs: 3000, MaxWall: 45e9}
}

func (C07) New() any { return &C07Scenario{} }

func (C07) Gen(t *tape.Tape, tier string) any {
	sc := &C07Scenario{}
	shapes := []gen.Shape{gen.ShapeFlat, gen.ShapeNested, gen.ShapeLogical, gen.ShapeDyn, gen.ShapeGen}
	sc.Subject = []string{"writer", "reset", "rowgroup-buffer", "rowgroup-file"}[t.Weighted(4, 2, 2, 3)]
	sc.Plan = GenWritePlan(t, shapes, 1200)
	sh := gen.ShapeByName(sc.Plan.Shape)
	gen.GenBloom(t, sh, &sc.Plan.W)
	sc.Pools = GenPoolPolicy(t)
	sc.F = gen.GenFOpts(t)
	switch sc.Subject {
	case "reset":
		l := genLife(t)
		if l.End == "sinkfail" {
			l.End = "abandon"
			l.Fault = nil
		}
		sc.Prior = &l
	case "rowgroup-buffer":
		sc.BufferKind = gen.BufferKinds[t.Draw(len(gen.BufferKinds))]
	case "rowgroup-file":
		sc.SameOpts = t.Bool()
		if sc.SameOpts {
			sc.SrcW = sc.Plan.W
			if t.Bool() {
				sc.SrcW.Bloom = nil // destination asks for filters the source does not have
			}
		} else {
			sc.SrcW = gen.GenWOpts(t, sh)
			if t.Bool() {
				gen.GenBloom(t, sh, &sc.SrcW)
			}
		}
	}
	return sc
}

func (C07) Run(s any, c *core.Ctx) core.Outcome {
	sc := s.(*C07Scenario)
	out := core.Outcome{}
	sc.Pools.Install()
	sh, data := sc.Plan.MakeData()
	model := data.Rows()
	var fileBytes []byte

	switch sc.Subject {
	case "writer":
		res := sc.Plan.Execute(c, nil, data)
		if res.FirstErr != nil {
			out.Violation = core.Violate("C07/write-error/"+res.ErrOp, "%v", res.FirstErr)
			return out
		}
		fileBytes = res.Sink.Bytes()
	case "reset":
		e := &gen.Env{Ctx: c}
		opts := sc.Plan.W.Options(e)
		lsink, lface := env.NewSink(c, sc.Plan.Sink, nil)
		w := sh.NewWriter(sc.Plan.WriterKind, lface, opts...)
		life := sc.Prior
		ld := sh.Make(life.RowSeed, life.NRows, gen.Profile(life.Profile))
		lw := &Written{Shape: sh, Data: ld, Sink: lsink, Env: e, W: w}
		if life.End == "abandon" {
			lw.runOpsNoClose(c, life.Ops)
		} else {
			lw.RunOps(c, life.Ops, 0)
		}
		if lw.FirstErr != nil {
			out.Violation = core.Violate("C07/write-error/prior-life", "%v", lw.FirstErr)
			return out
		}
		sink, face := env.NewSink(c, sc.Plan.Sink, nil)
		w.Reset(face)
		fw := &Written{Shape: sh, Data: data, Sink: sink, Env: e, W: w}
		fw.RunOps(c, sc.Plan.Ops, 0)
		if fw.FirstErr != nil {
			out.Violation = core.Violate("C07/write-error/"+fw.ErrOp, "after Reset: %v", fw.FirstErr)
			return out
		}
		if an := e.PoolAnomalies(); len(an) > 0 {
			out.Violation = core.Violate("C07/buffer-pool-misuse/reset", "%s", an[0])
			return out
		}
		fileBytes = sink.Bytes()
	case "rowgroup-buffer":
		buf := sh.NewBuffer(sc.BufferKind)
		if _, err := buf.Write(data, 0, data.Len()); err != nil {
			out.Violation = core.Violate("C07/buffer-write-error", "%v", err)
			return out
		}
		e := &gen.Env{Ctx: c}
		sink, face := env.NewSink(c, sc.Plan.Sink, nil)
		w := sh.NewWriter(gen.WGeneric, face, sc.Plan.W.Options(e)...)
		if data.Len() > 0 {
			if _, err := w.WriteRowGroup(buf); err != nil {
				out.Violation = core.Violate("C07/write-row-group-error/buffer", "%v", err)
				return out
			}
		}
		if err := w.Close(); err != nil {
			out.Violation = core.Violate("C07/write-error/close", "%v", err)
			return out
		}
		fileBytes = sink.Bytes()
	case "rowgroup-file":
		srcPlan := sc.Plan
		srcPlan.W = sc.SrcW
		src := srcPlan.Execute(c, nil, data)
		if src.FirstErr != nil {
			out.Violation = core.Violate("C07/write-error/source-"+src.ErrOp, "%v", src.FirstErr)
			return out
		}
		sf := env.NewFile(c, src.Sink.Bytes())
		srcFile, err := parquet.OpenFile(sf, sf.Size())
		if err != nil {
			out.Violation = core.Violate("C07/open-error/source", "%v", err)
			return out
		}
		e := &gen.Env{Ctx: c}
		sink, face := env.NewSink(c, sc.Plan.Sink, nil)
		w := sh.NewWriter(gen.WGeneric, face, sc.Plan.W.Options(e)...)
		c0, r0 := parquet.VerifCopyPathCount(), parquet.VerifReencodePathCount()
		for _, rg := range srcFile.RowGroups() {
			if _, err := w.WriteRowGroup(rg); err != nil {
				out.Violation = core.Violate("C07/write-row-group-error/file", "%v", err)
				return out
			}
		}
		if err := w.Close(); err != nil {
			out.Violation = core.Violate("C07/write-error/close", "%v", err)
			return out
		}
		if parquet.VerifCopyPathCount() > c0 {
			c.Probe("verbatim-copy-path")
		}
		if parquet.VerifReencodePathCount() > r0 {
			c.Probe("reencode-path")
		}
		fileBytes = sink.Bytes()
	}

	_, f, err := openFile(c, fileBytes, sc.F)
	if err != nil {
		out.Violation = core.Violate("C07/open-error", "%v", err)
		return out
	}
	if f.NumRows() != int64(len(model)) {
		out.Violation = core.Violate("C07/num-rows", "file has %d rows, %d written", f.NumRows(), len(model))
		return out
	}
	c01FallbackProbe(f, c)
	configured := map[int]bool{}
	paths := f.Schema().Columns()
	for _, b := range sc.Plan.W.Bloom {
		for ci, p := range paths {
			if fmt.Sprint(p) == fmt.Sprint(b.Path) {
				configured[ci] = true
			}
		}
	}
	checked, filters := 0, 0
	pos := 0
	for gi, rg := range f.RowGroups() {
		n := int(rg.NumRows())
		rows := model[pos : pos+n]
		for ci, cc := range rg.ColumnChunks() {
			if !configured[ci] {
				continue
			}
			bf := cc.BloomFilter()
			vals := columnValues(rows, ci)
			nonNull := 0
			for _, v := range vals {
				if !v.IsNull() {
					nonNull++
				}
			}
			if bf == nil {
				if nonNull > 0 {
					c.Probe("configured-filter-absent")
				}
				continue
			}
			filters++
			distinct := map[string]bool{}
			for _, v := range vals {
				if !v.IsNull() {
					distinct[string(v.Bytes())] = true
				}
			}
			if v := bloomUndersized("C07", bloomSpecs(sc.Plan.W), paths[ci], len(distinct), bf.Size()); v != nil {
				v.Class += "/" + sc.Subject
				v.Detail = fmt.Sprintf("row group %d column %v: %s", gi, paths[ci], v.Detail)
				out.Violation = v
				return out
			}
			for _, v := range vals {
				if v.IsNull() {
					continue
				}
				ok, err := bf.Check(v)
				c.Step()
				if err != nil {
					out.Violation = core.Violate("C07/check-error/"+sc.Subject, "row group %d column %v: Check: %v", gi, paths[ci], err)
					return out
				}
				if !ok {
					out.Violation = core.Violate("C07/false-negative/"+sc.Subject, "row group %d column %v (%v): written value %s reported absent (bloom size %d)", gi, paths[ci], cc.Type(), gen.FmtValue(v), bf.Size())
					return out
				}
				checked++
			}
		}
		pos += n
	}
	// the same filters seen through a multi row group view: a member chunk without
	// filter (not configured, or omitted for a chunk holding only nulls) must not
	// turn its values into "absent"
	if rgs := f.RowGroups(); len(rgs) >= 2 {
		for ci, cc := range parquet.MultiRowGroup(rgs...).ColumnChunks() {
			bf := cc.BloomFilter()
			if bf == nil {
				continue
			}
			n := 0
			for _, v := range columnValues(model, ci) {
				if v.IsNull() {
					continue
				}
				if n++; n > 200 {
					break
				}
				ok, err := bf.Check(v)
				c.Step()
				if err != nil {
					out.Violation = core.Violate("C07/check-error/multi-view", "column %v: Check: %v", paths[ci], err)
					return out
				}
				if !ok {
					out.Violation = core.Violate("C07/false-negative/multi-view", "column %v through MultiRowGroup: written value %s reported absent", paths[ci], gen.FmtValue(v))
					return out
				}
			}
			c.Probe("multi-view-filters")
		}
	}
	out.Nontrivial = filters > 0 && checked > 0
	out.Sig = fmt.Sprintf("%s|%s|%s|%s|%v", sc.Subject, sc.Plan.Shape, sc.Plan.WriterKind, sc.Plan.W.Sig(), sc.SameOpts)
	out.Sample = map[string]any{"subject": sc.Subject, "shape": sc.Plan.Shape, "rows": len(model), "filters": filters, "values_checked": checked, "bloom": sc.Plan.W.Bloom, "opts": sc.Plan.W.Sig()}
	return out
}
