package props

import (
	"bytes"
	"fmt"
	"sort"

	"github.com/parquet-go/parquet-go"

	"pqsim/core"
	"pqsim/env"
	"pqsim/gen"
	"pqsim/tape"
)

// C10 — sorting buffers and the SortingWriter output a correctly ordered
// permutation (E4 + E1: write-batch histories, Reset/reuse, spill through
// simulated sorting buffers, output on a simulated sink).

type C10Scenario struct {
	Subject   string        `json:"subject"` // generic-buffer | buffer | row-buffer | sorting-writer
	Sort      []gen.SortCol `json:"sort"`
	Pattern   string        `json:"pattern"`
	N         int           `json:"n"`
	Seed      uint64        `json:"seed"`
	Batches   []int         `json:"batches"`   // write batch sizes (cycled)
	PriorN    int           `json:"prior_n"`   // rows written before a Reset (0 = fresh instance)
	SortRows  int64         `json:"sort_rows"` // SortingWriter run size
	FlushEach int           `json:"flush_each,omitempty"`
	ReadEach  int           `json:"read_each,omitempty"` // buffers: read the rows back after every n-th batch, then keep writing
	Dedupe    bool          `json:"dedupe,omitempty"`
	W         gen.WOpts     `json:"w"`
	Pools     PoolPolicy    `json:"pools"`
}

type C10 struct{}

func (C10) ID() string { return "C10" }

func (C10) Info() core.Info {
	return core.Info{
		Level: "exploration",
		Rule: "one run = a seeded multiset of rows (key patterns incl. nulls and heavy duplicates; required, optional and repeated non-key columns; a unique id and a checksum per row) written in a drawn sequence of batch sizes (which decides the contiguous null/non-null run lengths seen by the column buffers) into a GenericBuffer, Buffer or RowBuffer - fresh or reused after Reset - then sort.Sort; or into a SortingWriter with a drawn run size, explicit Flush calls, Reset/reuse, simulated sorting buffers (short reads) and a simulated sink, with or without duplicate dropping. " +
			"Oracle: output is a permutation of the input ids (one row per key when deduplicating), every row intact, adjacent rows ordered under an independent comparator implementing the format's SortingColumn{descending, nulls_first} meaning AND under Schema.Comparator, and the file's sorting metadata equals the configuration. distinct = distinct (subject, sort, pattern, batching class) signatures; non-trivial = >= 2 distinct keys and >= 8 rows",
		Real:   []string{"parquet-go column buffers (incl. assembly kernels), RowBuffer, sort.Interface implementations, SortingWriter, merge, writer, reader (all real code from /repo)"},
		Stubs:  []string{"destination io.Writer (SimSink)", "SortingBuffers / page BufferPool (SimBufferPool)", "internal/memory.Pool (deterministic H1/H2)"},
		Assume: []string{"sorting columns are never repeated columns (order undefined by the library)", "stability is not required", "NaN keys are not generated"},
	}
}

func (C10) Budget(tier string) core.Budget {
	if tier == "thorough" {
		return core.Budget{Runs: 60000, MaxWall: 15 * 60e9}
	}
	return core.Budget{Runs: 5000, MaxWall: 45e9}
}

func (C10) New() any { return &C10Scenario{} }

func (C10) Gen(t *tape.Tape, tier string) any {
	sc := &C10Scenario{}
	sc.Subject = []string{"generic-buffer", "buffer", "row-buffer", "sorting-writer"}[t.Weighted(3, 2, 2, 4)]
	sc.Sort = genSortSpec(t)
	sc.Pattern = []string{"random", "dups", "identical", "alternating", "nested"}[t.Draw(5)]
	sc.N = []int{0, 1, 2, 9, 40, 200, 700, 1500}[t.Weighted(1, 1, 1, 3, 4, 4, 2, 1)]
	sc.Seed = t.Seed()
	nb := t.Range(1, 5)
	for i := 0; i < nb; i++ {
		sc.Batches = append(sc.Batches, []int{1, 2, 3, 7, 8, 9, 15, 16, 17, 33, 64, 100, 1000}[t.Draw(13)])
	}
	if t.Chance(1, 3) {
		sc.PriorN = t.Range(1, 300)
	}
	sc.SortRows = int64([]int{100, 1, 2, 7, 50, 500, 5000}[t.Draw(7)])
	if t.Chance(1, 3) {
		sc.FlushEach = t.Range(1, 6)
	}
	if t.Chance(1, 3) {
		sc.ReadEach = t.Range(1, 4)
	}
	sc.Dedupe = sc.Subject == "sorting-writer" && t.Chance(1, 4)
	sc.W = gen.GenWOpts(t, gen.ShapeKeyed)
	sc.W.WriteBufferSize = -1
	sc.Pools = GenPoolPolicy(t)
	return sc
}

// refCompare is the independent comparator: direction applies to non-null
// values only; nulls_first places nulls before all values, otherwise after.
func refCompare(cols []gen.SortCol) func(a, b gen.Keyed) int {
	return func(a, b gen.Keyed) int {
		for _, c := range cols {
			var r int
			switch c.Path[0] {
			case "k":
				r = cmpOrd(a.K, b.K)
			case "f":
				r = cmpOrd(a.F, b.F)
			case "pay":
				r = bytes.Compare([]byte(a.Pay), []byte(b.Pay))
			case "sum":
				switch {
				case a.Sum < b.Sum:
					r = -1
				case a.Sum > b.Sum:
					r = +1
				}
			case "g":
				var av, bv *int64
				if a.G != nil {
					av = a.G.V
				}
				if b.G != nil {
					bv = b.G.V
				}
				switch {
				case av == nil && bv == nil:
					r = 0
				case av == nil:
					if c.NullsFirst {
						return -1
					}
					return +1
				case bv == nil:
					if c.NullsFirst {
						return +1
					}
					return -1
				default:
					r = cmpOrd(*av, *bv)
				}
			case "k2":
				switch {
				case a.K2 == nil && b.K2 == nil:
					r = 0
				case a.K2 == nil:
					if c.NullsFirst {
						return -1
					}
					return +1
				case b.K2 == nil:
					if c.NullsFirst {
						return +1
					}
					return -1
				default:
					r = bytes.Compare([]byte(*a.K2), []byte(*b.K2))
				}
			}
			if c.Desc {
				r = -r
			}
			if r != 0 {
				return r
			}
		}
		return 0
	}
}

func cmpOrd[T int64 | float64](a, b T) int {
	switch {
	case a < b:
		return -1
	case a > b:
		return +1
	}
	return 0
}

func (C10) Run(s any, c *core.Ctx) core.Outcome {
	sc := s.(*C10Scenario)
	out := core.Outcome{}
	sc.Pools.Install()
	sortCols := gen.SortingColumns(sc.Sort)
	libCmp := keyedSchema.Comparator(sortCols...)
	ref := refCompare(sc.Sort)

	// unsorted input rows
	r := tape.NewRng(sc.Seed)
	keys := genKeys(r, sc.Pattern, 0, 1, sc.N)
	// shuffle so the input is not already ordered
	for i := len(keys) - 1; i > 0; i-- {
		j := r.Intn(i + 1)
		keys[i], keys[j] = keys[j], keys[i]
	}
	vals := make([]gen.Keyed, sc.N)
	for i := range vals {
		vals[i] = makeKeyed(r, keys[i], 0)
		vals[i].Seq = int64(i)
	}
	prior := make([]gen.Keyed, sc.PriorN)
	for i := range prior {
		prior[i] = makeKeyed(r, int64(r.Intn(50)), 9)
		prior[i].Seq = int64(i)
	}
	model := make([]parquet.Row, sc.N)
	for i := range vals {
		model[i] = keyedSchema.Deconstruct(nil, vals[i])
	}
	distinctKeys := map[string]bool{}
	for _, v := range vals {
		k2 := "<nil>"
		if v.K2 != nil {
			k2 = *v.K2
		}
		distinctKeys[fmt.Sprintf("%d|%s|%v|%s", v.K, k2, v.F, v.Pay)] = true
	}
	out.Nontrivial = len(distinctKeys) >= 2 && sc.N >= 8
	bclass := ""
	for _, b := range sc.Batches {
		bclass += fmt.Sprint(b%8 == 0, b >= 8)
	}
	out.Sig = fmt.Sprintf("%s|%v|%s|%s|%v|%v|%d", sc.Subject, sc.Sort, sc.Pattern, bclass, sc.PriorN > 0, sc.Dedupe, sc.SortRows)
	out.Sample = map[string]any{"subject": sc.Subject, "sort": sc.Sort, "pattern": sc.Pattern, "rows": sc.N, "batches": sc.Batches, "prior_rows": sc.PriorN, "sort_rows": sc.SortRows, "dedupe": sc.Dedupe}

	var midRead func(pos int) *core.Violation
	writeBatches := func(write func([]gen.Keyed) (int, error), rows []gen.Keyed, flush func() error) *core.Violation {
		pos, bi := 0, 0
		for pos < len(rows) {
			n := sc.Batches[bi%len(sc.Batches)]
			bi++
			if pos+n > len(rows) {
				n = len(rows) - pos
			}
			m, err := write(rows[pos : pos+n])
			c.Step()
			if err != nil || m != n {
				return core.Violate("C10/write-error/"+sc.Subject, "Write of %d rows returned %d, %v", n, m, err)
			}
			pos += n
			if midRead != nil && sc.ReadEach > 0 && bi%sc.ReadEach == 0 {
				if v := midRead(pos); v != nil {
					return v
				}
			}
			if flush != nil && sc.FlushEach > 0 && bi%sc.FlushEach == 0 {
				if err := flush(); err != nil {
					return core.Violate("C10/flush-error/"+sc.Subject, "%v", err)
				}
			}
		}
		return nil
	}

	var got []parquet.Row
	var fileSorting string
	rgOpts := []parquet.RowGroupOption{parquet.SortingRowGroupConfig(parquet.SortingColumns(sortCols...))}
	switch sc.Subject {
	case "generic-buffer", "buffer", "row-buffer":
		var buf sortBuf
		var write func([]gen.Keyed) (int, error)
		switch sc.Subject {
		case "generic-buffer":
			b := parquet.NewGenericBuffer[gen.Keyed](rgOpts...)
			buf = b
			write = b.Write
		case "row-buffer":
			b := parquet.NewRowBuffer[gen.Keyed](rgOpts...)
			buf = b
			write = b.Write
		case "buffer":
			b := parquet.NewBuffer(append([]parquet.RowGroupOption{keyedSchema}, rgOpts...)...)
			buf = b
			write = func(rows []gen.Keyed) (int, error) {
				for i := range rows {
					if err := b.Write(rows[i]); err != nil {
						return i, err
					}
				}
				return len(rows), nil
			}
		}
		if sc.PriorN > 0 {
			if v := writeBatches(write, prior, nil); v != nil {
				out.Violation = v
				return out
			}
			sort.Sort(buf)
			buf.Reset()
		}
		// reading the buffer between writes must not disturb it
		midRead = func(pos int) *core.Violation {
			rows, v := drainRows(buf.Rows())
			if v != nil {
				v.Class = "C10/read-error/" + sc.Subject
				return v
			}
			if len(rows) != pos {
				return core.Violate("C10/row-count/"+sc.Subject, "buffer delivers %d rows after %d were written", len(rows), pos)
			}
			for i, row := range rows {
				if d := gen.RowDiff(model[i], row); d != "" {
					return core.Violate("C10/row-torn/"+sc.Subject+"-unsorted", "row %d read back before sorting is not intact: %s", i, d)
				}
			}
			return nil
		}
		if v := writeBatches(write, vals, nil); v != nil {
			out.Violation = v
			return out
		}
		midRead = nil
		sort.Sort(buf)
		c.Event("sorted %d", buf.Len())
		if int(buf.NumRows()) != sc.N {
			out.Violation = core.Violate("C10/row-count/"+sc.Subject, "buffer holds %d rows, %d written", buf.NumRows(), sc.N)
			return out
		}
		rows, v := drainRows(buf.Rows())
		if v != nil {
			v.Class = "C10/read-error/" + sc.Subject
			out.Violation = v
			return out
		}
		got = rows
	case "sorting-writer":
		e := &gen.Env{Ctx: c}
		ww := sc.W
		ww.Sorting = sc.Sort
		ww.DropDuplicates = sc.Dedupe
		sink, face := env.NewSink(c, env.SinkFaces{}, nil)
		w := parquet.NewSortingWriter[gen.Keyed](face, sc.SortRows, ww.Options(e)...)
		if sc.PriorN > 0 {
			if v := writeBatches(w.Write, prior, w.Flush); v != nil {
				out.Violation = v
				return out
			}
			if r.Bool() {
				if err := w.Close(); err != nil {
					out.Violation = core.Violate("C10/close-error/sorting-writer", "prior life: %v", err)
					return out
				}
			}
			sink, face = env.NewSink(c, env.SinkFaces{}, nil)
			w.Reset(face)
		}
		if v := writeBatches(w.Write, vals, w.Flush); v != nil {
			out.Violation = v
			return out
		}
		if err := w.Close(); err != nil {
			out.Violation = core.Violate("C10/close-error/sorting-writer", "%v", err)
			return out
		}
		if an := e.PoolAnomalies(); len(an) > 0 {
			out.Violation = core.Violate("C10/buffer-pool-misuse", "%s", an[0])
			return out
		}
		sf := env.NewFile(c, sink.Bytes())
		f, err := parquet.OpenFile(sf, sf.Size())
		if err != nil {
			out.Violation = core.Violate("C10/open-error", "%v", err)
			return out
		}
		for gi, rg := range f.RowGroups() {
			rows, v := drainRows(rg.Rows())
			if v != nil {
				v.Class = "C10/read-error/sorting-writer"
				out.Violation = v
				return out
			}
			got = append(got, rows...)
			sorting := fmt.Sprint(describeSorting(rg.SortingColumns()))
			if gi == 0 {
				fileSorting = sorting
			} else if sorting != fileSorting {
				fileSorting = "mixed: " + fileSorting + " / " + sorting
			}
		}
		if want := fmt.Sprint(describeSorting(sortCols)); len(f.RowGroups()) > 0 && fileSorting != want {
			out.Violation = core.Violate("C10/sorting-metadata/sorting-writer", "file declares sorting %s, configured %s", fileSorting, want)
			return out
		}
	}

	tag := func(t string) string {
		d := ""
		if sc.Dedupe {
			d = "-dedupe"
		}
		return "C10/" + t + "/" + sc.Subject + d
	}
	// permutation + intact rows
	seen := make([]bool, sc.N)
	typed := make([]gen.Keyed, len(got))
	for oi, row := range got {
		src, seq, ok := rowIdent(row)
		if !ok || src != 0 || seq >= sc.N {
			out.Violation = core.Violate(tag("foreign-row"), "output row %d is not one of the %d rows written: %s", oi, sc.N, fmtKeyed(row))
			return out
		}
		if d := gen.RowDiff(model[seq], row); d != "" {
			out.Violation = core.Violate(tag("row-torn"), "output row %d (written as row %d) is not intact: %s", oi, seq, d)
			return out
		}
		if seen[seq] {
			out.Violation = core.Violate(tag("row-duplicated"), "row %d appears twice", seq)
			return out
		}
		seen[seq] = true
		typed[oi] = vals[seq]
	}
	if !sc.Dedupe && len(got) != sc.N {
		out.Violation = core.Violate(tag("row-missing"), "output has %d rows, %d were written", len(got), sc.N)
		return out
	}
	// ordering under both comparators
	for i := 1; i < len(got); i++ {
		rc := ref(typed[i-1], typed[i])
		lc := libCmp(got[i-1], got[i])
		if sgn(rc) != sgn(lc) {
			out.Violation = core.Violate("C10/comparator-disagrees-with-declared-order", "Schema.Comparator(%v) says %d, the format's meaning of the sorting columns says %d for %s | %s", sc.Sort, lc, rc, fmtKeyed(got[i-1]), fmtKeyed(got[i]))
			return out
		}
		if rc > 0 || (sc.Dedupe && rc == 0) {
			what := "out of order"
			if rc == 0 {
				what = "duplicate key kept"
			}
			out.Violation = core.Violate(tag("not-sorted"), "%s under %v at output rows %d,%d: %s | %s", what, sc.Sort, i-1, i, fmtKeyed(got[i-1]), fmtKeyed(got[i]))
			return out
		}
	}
	if sc.Dedupe {
		// one row per distinct sort key
		sorted := append([]gen.Keyed(nil), vals...)
		sort.SliceStable(sorted, func(a, b int) bool { return ref(sorted[a], sorted[b]) < 0 })
		distinct := 0
		for i := range sorted {
			if i == 0 || ref(sorted[i-1], sorted[i]) != 0 {
				distinct++
			}
		}
		if len(got) != distinct {
			out.Violation = core.Violate(tag("dedupe-count"), "output has %d rows, the input has %d distinct sort keys", len(got), distinct)
			return out
		}
	}
	return out
}

type sortBuf interface {
	parquet.RowGroup
	sort.Interface
	Reset()
}

func sgn(x int) int {
	switch {
	case x < 0:
		return -1
	case x > 0:
		return 1
	}
	return 0
}

func describeSorting(cols []parquet.SortingColumn) []string {
	var out []string
	for _, c := range cols {
		out = append(out, fmt.Sprintf("%v desc=%v nulls_first=%v", c.Path(), c.Descending(), c.NullsFirst()))
	}
	return out
}
