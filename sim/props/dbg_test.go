package props

import (
	"bytes"
	"fmt"
	"os"
	"testing"

	"github.com/parquet-go/parquet-go/encoding/thrift"
	"github.com/parquet-go/parquet-go/format"
)

// TestDumpPages is a triage aid: PQSIM_FILE=<parquet file> prints every page header.
func TestDumpPages(t *testing.T) {
	path := os.Getenv("PQSIM_FILE")
	if path == "" {
		t.Skip()
	}
	data, err := os.ReadFile(path)
	if err != nil {
		t.Fatal(err)
	}
	pages, _, err := fileLayout(data)
	if err != nil {
		t.Fatal(err)
	}
	proto := thrift.CompactProtocol{}
	for _, p := range pages {
		var h format.PageHeader
		thrift.NewDecoder(proto.NewReader(bytes.NewReader(data[p.HeaderOff:]))).Decode(&h)
		fmt.Printf("rg=%d col=%d %s off=%d hdr=%d body=%d type=%v", p.RowGroup, p.Column, p.Path, p.HeaderOff, p.BodyOff-p.HeaderOff, p.BodyLen, h.Type)
		if h.DataPageHeaderV2.Valid {
			s := h.DataPageHeaderV2.V.Statistics
			fmt.Printf(" v2 nv=%d nn=%d stats: min=%v max=%v minv=%v maxv=%v nc=%v", h.DataPageHeaderV2.V.NumValues, h.DataPageHeaderV2.V.NumNulls, s.Min, s.Max, s.MinValue, s.MaxValue, s.NullCount)
		}
		if h.DataPageHeader.Valid {
			s := h.DataPageHeader.V.Statistics
			fmt.Printf(" v1 nv=%d stats: min=%v max=%v minv=%v maxv=%v nc=%v", h.DataPageHeader.V.NumValues, s.Min, s.Max, s.MinValue, s.MaxValue, s.NullCount)
		}
		fmt.Println()
	}
}
