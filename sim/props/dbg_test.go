package props

import (
	"bytes"
	"encoding/binary"
	"encoding/json"
	"fmt"
	"github.com/parquet-go/parquet-go"
	"os"
	"pqsim/core"
	"pqsim/gen"
	"pqsim/tape"
	"testing"

	"github.com/parquet-go/parquet-go/encoding/thrift"
	"github.com/parquet-go/parquet-go/format"
)

// TestDumpPages is a triage aid: PQSIM_FILE=<parquet file> prints every page header.
func TestDumpPages(t *testing.T) {
	path := os.Getenv("PQSIM_FILE")
	if path == "" {
		t.Skip()
	}
	data, err := os.ReadFile(path)
	if err != nil {
		t.Fatal(err)
	}
	pages, _, err := fileLayout(data)
	if err != nil {
		t.Fatal(err)
	}
	proto := thrift.CompactProtocol{}
	for _, p := range pages {
		var h format.PageHeader
		thrift.NewDecoder(proto.NewReader(bytes.NewReader(data[p.HeaderOff:]))).Decode(&h)
		fmt.Printf("rg=%d col=%d %s off=%d hdr=%d body=%d type=%v", p.RowGroup, p.Column, p.Path, p.HeaderOff, p.BodyOff-p.HeaderOff, p.BodyLen, h.Type)
		if h.DataPageHeaderV2.Valid {
			s := h.DataPageHeaderV2.V.Statistics
			fmt.Printf(" v2 nv=%d nn=%d stats: min=%v max=%v minv=%v maxv=%v nc=%v", h.DataPageHeaderV2.V.NumValues, h.DataPageHeaderV2.V.NumNulls, s.Min, s.Max, s.MinValue, s.MaxValue, s.NullCount)
		}
		if h.DataPageHeader.Valid {
			s := h.DataPageHeader.V.Statistics
			fmt.Printf(" v1 nv=%d stats: min=%v max=%v minv=%v maxv=%v nc=%v", h.DataPageHeader.V.NumValues, s.Min, s.Max, s.MinValue, s.MaxValue, s.NullCount)
		}
		fmt.Println()
	}
}

// TestC18Modules is a triage aid: PQSIM_REPLAY=<C18 replay file> lists the
// module envelopes of the scenario's file and what the metadata says lives there.
func TestC18Modules(t *testing.T) {
	path := os.Getenv("PQSIM_REPLAY")
	if path == "" {
		t.Skip()
	}
	r, err := core.ReadReplay(path)
	if err != nil {
		t.Fatal(err)
	}
	sc := &C18Scenario{}
	json.Unmarshal(r.Scenario, sc)
	run := &c18run{sc: sc, c: core.NewCtx("x")}
	run.sh, run.data = sc.Plan.MakeData()
	sc.Pools.Install()
	kr := tape.NewRng(sc.RandSeed ^ 0x9e3779b97f4a7c15)
	run.keys = &keyRing{footer: make([]byte, []int{16, 24, 32}[kr.Intn(3)]), cols: map[string][]byte{}}
	kr.Bytes(run.keys.footer)
	for _, p := range sc.ColumnKeys {
		k := make([]byte, 16)
		kr.Bytes(k)
		run.keys.cols[p] = k
	}
	good, _ := run.write([]byte("fileid01"), 0)
	flen := int64(binary.LittleEndian.Uint32(good[len(good)-8:]))
	footer := int64(len(good)) - 8 - flen
	mods, ok := walkModules(good, footer)
	fmt.Println("file", len(good), "footer at", footer, "modules", len(mods), ok)
	f, err := parquet.OpenFile(bytes.NewReader(good), int64(len(good)), parquet.WithDecryption(run.keys))
	if err != nil {
		t.Fatal(err)
	}
	label := map[int64]string{}
	for gi, rg := range f.Metadata().RowGroups {
		for ci, col := range rg.Columns {
			m := col.MetaData
			label[m.DataPageOffset] = fmt.Sprintf("rg%d col%d data", gi, ci)
			if m.DictionaryPageOffset != 0 {
				label[m.DictionaryPageOffset] = fmt.Sprintf("rg%d col%d dict", gi, ci)
			}
			if m.BloomFilterOffset != 0 {
				label[m.BloomFilterOffset] = fmt.Sprintf("rg%d col%d bloom len=%d", gi, ci, m.BloomFilterLength)
			}
			if col.ColumnIndexOffset != 0 {
				label[col.ColumnIndexOffset] = fmt.Sprintf("rg%d col%d colindex", gi, ci)
			}
			if col.OffsetIndexOffset != 0 {
				label[col.OffsetIndexOffset] = fmt.Sprintf("rg%d col%d offindex", gi, ci)
			}
		}
	}
	for i, m := range mods {
		fmt.Printf("%4d off=%6d len=%5d %s\n", i, m[0], m[1], label[m[0]])
	}
}

func TestC09Refine(t *testing.T) {
	if os.Getenv("PQSIM_C09DBG") == "" {
		t.Skip()
	}
	sort := sortSpecs[10]
	sortCols := gen.SortingColumns(sort)
	cmp := keyedSchema.Comparator(sortCols...)
	var rgs []parquet.RowGroup
	for i := 0; i < 2; i++ {
		typed, _ := keyedInput(1, "partial", i, 2, 1500+100*i, cmp)
		var buf bytes.Buffer
		w := parquet.NewGenericWriter[gen.Keyed](&buf, parquet.PageBufferSize(64), parquet.SortingWriterConfig(parquet.SortingColumns(sortCols...)))
		w.Write(typed)
		w.Close()
		f, err := parquet.OpenFile(bytes.NewReader(buf.Bytes()), int64(buf.Len()))
		if err != nil {
			t.Fatal(err)
		}
		fmt.Println("input", i, "rows", len(typed), "k range", typed[0].K, typed[len(typed)-1].K, "rgs", len(f.RowGroups()))
		oi, _ := f.RowGroups()[0].ColumnChunks()[0].OffsetIndex()
		fmt.Println("  pages of k:", oi.NumPages())
		rgs = append(rgs, f.RowGroups()...)
	}
	m, err := parquet.MergeRowGroups(rgs, parquet.SortingRowGroupConfig(parquet.SortingColumns(sortCols...)), keyedSchema)
	fmt.Printf("merged type %T err %v rows %d\n", m, err, m.NumRows())
}

// TestC11Dump is a triage aid: PQSIM_REPLAY=<C11 replay file> prints per chunk what both paths wrote.
func TestC11Dump(t *testing.T) {
	path := os.Getenv("PQSIM_REPLAY")
	if path == "" {
		t.Skip()
	}
	raw, _ := os.ReadFile(path)
	var rf struct {
		Scenario json.RawMessage `json:"scenario"`
	}
	json.Unmarshal(raw, &rf)
	sc := &C11Scenario{}
	if err := json.Unmarshal(rf.Scenario, sc); err != nil {
		t.Fatal(err)
	}
	c := core.NewCtx("quick")
	sh := gen.ShapeByName(sc.Shape)
	data := sh.Make(sc.RowSeed, sc.NRows, gen.Profile(sc.Profile))
	pre := sh.Make(sc.RowSeed+1, sc.PreRows, gen.Profile(sc.Profile))
	for _, rowPath := range []bool{false, true} {
		o, _, v := c11Execute(c, sc, sh, data, pre, rowPath)
		if v != nil {
			t.Fatal(v)
		}
		f, err := parquet.OpenFile(bytes.NewReader(o.bytes), int64(len(o.bytes)))
		if err != nil {
			t.Fatal(err)
		}
		fmt.Printf("rowPath=%v copied=%d reenc=%d\n", rowPath, o.copied, o.reenc)
		for gi, rg := range f.Metadata().RowGroups {
			for ci, col := range rg.Columns {
				m := col.MetaData
				if m.BloomFilterOffset == 0 || ci == 6 {
					fmt.Printf("  rg=%d rows=%d col=%d %v nv=%d nulls=%d bloom=%d enc=%v\n", gi, rg.NumRows, ci, m.PathInSchema, m.NumValues, m.Statistics.NullCount, m.BloomFilterOffset, m.Encoding)
				}
			}
		}
	}
}
