package props

import (
	"errors"
	"fmt"
	"io"
	"math"

	"github.com/parquet-go/parquet-go"

	"pqsim/core"
	"pqsim/env"
	"pqsim/gen"
)

// driveResult is what happened when a reader was driven until it returned an
// error or io.EOF on (possibly faulty / corrupted) storage.
type driveResult struct {
	Delivered int             // rows delivered and equal to the model
	Wrong     *core.Violation // a delivered row/value differed from the model (always a violation)
	Err       error           // terminating error (nil means the reader ended with a clean io.EOF / success)
	Stage     string          // open | read | close
	Complete  bool            // every model row was delivered
}

var drivePaths = []string{"rowgroups", "reader", "typed", "pages"}

// drive opens the file and reads everything through the given path. It never
// reports missing rows itself: callers decide what an early clean end means.
func drive(c *core.Ctx, prop string, sf *env.SimFile, fo gen.FOpts, path string, sh gen.Shape, data gen.Data, b *batches) (res driveResult) {
	model := data.Rows()
	f, err := parquet.OpenFile(sf, sf.Size(), fo.Options()...)
	if err != nil {
		res.Err, res.Stage = err, "open"
		return
	}
	res.Stage = "read"
	cmpRows := func(pos int, buf []parquet.Row, n int) bool {
		for i := 0; i < n; i++ {
			if pos+i >= len(model) {
				res.Wrong = core.Violate(prop+"/extra-rows/"+path, "reader delivered more than the %d rows written", len(model))
				return false
			}
			if d := gen.RowDiff(model[pos+i], buf[i]); d != "" {
				res.Wrong = core.Violate(prop+"/wrong-row/"+path, "row %d: %s", pos+i, d)
				return false
			}
		}
		return true
	}
	readRows := func(r parquet.RowReader, pos int, limit int) (int, error) {
		stalls := 0
		for {
			n := b.next()
			buf := make([]parquet.Row, n)
			m, err := r.ReadRows(buf)
			c.Step()
			if m < 0 || m > n {
				res.Wrong = core.Violate(prop+"/bad-count/"+path, "ReadRows returned %d for a buffer of %d", m, n)
				return pos, nil
			}
			if !cmpRows(pos, buf, m) {
				return pos, nil
			}
			pos += m
			res.Delivered = pos
			if err != nil {
				return pos, err
			}
			if m == 0 {
				if stalls++; stalls > 8 {
					return pos, fmt.Errorf("pqsim: no progress")
				}
			} else {
				stalls = 0
			}
		}
	}
	switch path {
	case "bloom":
		// the bloom filters of the file seen through a multi row group view: every
		// written value of a filtered column is looked up. Filters that were not
		// prefetched are read from the source by Check itself: an I/O failure there
		// must come back as an error, never as "absent"
		rgs := f.RowGroups()
		if len(rgs) == 0 {
			res.Complete = true
			return
		}
		view := rgs[0]
		if len(rgs) > 1 {
			view = parquet.MultiRowGroup(rgs...)
		}
		for ci, cc := range view.ColumnChunks() {
			bf := cc.BloomFilter()
			if bf == nil {
				continue
			}
			seen := map[string]bool{}
			for _, v := range columnValues(model, ci) {
				if v.IsNull() || seen[string(v.Bytes())] || len(seen) >= 24 {
					continue
				}
				seen[string(v.Bytes())] = true
				ok, err := bf.Check(v)
				c.Step()
				if err != nil {
					res.Err, res.Stage = err, "bloom"
					return
				}
				if !ok {
					res.Wrong = core.Violate(prop+"/bloom-false-negative/"+path, "column %d: written value %s reported absent without error", ci, gen.FmtValue(v))
					return
				}
				res.Delivered++
			}
		}
		res.Complete = true
		return
	case "merge":
		// the row groups merged on one of the sortable non-repeated leaves (the data is
		// not sorted on it: the merged order is not examined, only what is
		// delivered): every delivered row is a written row not delivered before,
		// and a clean end delivers them all
		opts := []parquet.RowGroupOption{f.Schema()}
		var sortable [][]string
		for _, col := range f.Schema().Columns() {
			leaf, ok := f.Schema().Lookup(col...)
			if !ok || leaf.MaxRepetitionLevel != 0 {
				continue
			}
			switch leaf.Node.Type().Kind() {
			case parquet.Int32, parquet.Int64, parquet.Float, parquet.Double, parquet.ByteArray:
				sortable = append(sortable, col)
			}
		}
		if len(sortable) > 0 {
			// which one varies with the row count: the first column of several
			// shapes is a row counter, on which row groups never overlap
			col := sortable[len(model)%len(sortable)]
			opts = append(opts, parquet.SortingRowGroupConfig(parquet.SortingColumns(parquet.Ascending(col...))))
		}
		merged, err := parquet.MergeRowGroups(f.RowGroups(), opts...)
		if err != nil {
			res.Err, res.Stage = err, "open"
			return
		}
		left := make(map[string]int, len(model))
		for _, row := range model {
			left[rowKey(row)]++
		}
		rows := merged.Rows()
		stalls := 0
		for {
			n := b.next()
			buf := make([]parquet.Row, n)
			m, err := rows.ReadRows(buf)
			c.Step()
			if m < 0 || m > n {
				res.Wrong = core.Violate(prop+"/bad-count/"+path, "ReadRows returned %d for a buffer of %d", m, n)
				rows.Close()
				return
			}
			for i := 0; i < m; i++ {
				k := rowKey(buf[i])
				if left[k] == 0 {
					res.Wrong = core.Violate(prop+"/wrong-row/"+path, "delivered row %d was not written, or was delivered before: %s", res.Delivered, trunc(fmt.Sprintf("%+v", buf[i])))
					rows.Close()
					return
				}
				left[k]--
				res.Delivered++
			}
			if err != nil {
				if !errors.Is(err, io.EOF) {
					res.Err = err
					rows.Close()
					return
				}
				break
			}
			if m == 0 {
				if stalls++; stalls > 8 {
					res.Err = fmt.Errorf("pqsim: no progress")
					rows.Close()
					return
				}
			} else {
				stalls = 0
			}
		}
		if cerr := rows.Close(); cerr != nil {
			res.Err, res.Stage = cerr, "close"
			return
		}
		res.Complete = res.Delivered == len(model)
	case "rowgroups":
		pos := 0
		for _, rg := range f.RowGroups() {
			rows := rg.Rows()
			var err error
			pos, err = readRows(rows, pos, 0)
			cerr := rows.Close()
			if res.Wrong != nil {
				return
			}
			if err != nil && !errors.Is(err, io.EOF) {
				res.Err = err
				return
			}
			if cerr != nil {
				res.Err, res.Stage = cerr, "close"
				return
			}
		}
		res.Complete = pos == len(model)
	case "reader":
		r := parquet.NewReader(f)
		pos, err := readRows(r, 0, 0)
		cerr := r.Close()
		if res.Wrong != nil {
			return
		}
		if err != nil && !errors.Is(err, io.EOF) {
			res.Err = err
			return
		}
		if cerr != nil {
			res.Err, res.Stage = cerr, "close"
			return
		}
		res.Complete = pos == len(model)
	case "typed":
		r := sh.NewReader(f)
		pos := 0
		stalls := 0
		for {
			n := b.next()
			vals, rows, err := r.Read(n)
			c.Step()
			if !sh.HasMap() && !cmpRows(pos, rows, len(rows)) {
				r.Close()
				return
			}
			for i := range vals {
				if pos+i < len(model) && !sh.EqualValues(data.Value(pos+i), vals[i]) {
					res.Wrong = core.Violate(prop+"/wrong-value/typed", "row %d: got %s", pos+i, trunc(fmt.Sprintf("%+v", vals[i])))
					r.Close()
					return
				}
			}
			pos += len(vals)
			res.Delivered = pos
			if err != nil {
				if !errors.Is(err, io.EOF) {
					res.Err = err
					r.Close()
					return
				}
				break
			}
			if len(vals) == 0 {
				if stalls++; stalls > 8 {
					res.Err = fmt.Errorf("pqsim: no progress")
					r.Close()
					return
				}
			} else {
				stalls = 0
			}
		}
		if cerr := r.Close(); cerr != nil {
			res.Err, res.Stage = cerr, "close"
			return
		}
		res.Complete = pos == len(model)
	case "pages":
		// per column: concatenated page values must equal the model's column values
		complete := true
		minRows := len(model)
		pos := 0
		for _, rg := range f.RowGroups() {
			n := int(rg.NumRows())
			if pos+n > len(model) {
				res.Wrong = core.Violate(prop+"/extra-rows/pages", "row group claims rows beyond the %d written", len(model))
				return
			}
			for ci, cc := range rg.ColumnChunks() {
				want := columnValues(model[pos:pos+n], ci)
				got, rowsSeen, err := readColumnPages(cc, c)
				for i := range got {
					if i >= len(want) {
						res.Wrong = core.Violate(prop+"/extra-values/pages", "column %d delivered more than %d values", ci, len(want))
						return
					}
					if !gen.ValueEqual(want[i], got[i]) {
						res.Wrong = core.Violate(prop+"/wrong-value/pages", "column %d value %d: got %s want %s", ci, i, gen.FmtValue(got[i]), gen.FmtValue(want[i]))
						return
					}
				}
				if err != nil && !errors.Is(err, io.EOF) {
					res.Err = err
					return
				}
				if len(got) != len(want) {
					complete = false
				}
				if pos+int(rowsSeen) < minRows {
					minRows = pos + int(rowsSeen)
				}
			}
			pos += n
		}
		res.Delivered = minRows
		res.Complete = complete && pos == len(model)
	default:
		panic("unknown drive path " + path)
	}
	return
}

// columnValues extracts the values of one leaf column from model rows.
func columnValues(rows []parquet.Row, col int) []parquet.Value {
	var out []parquet.Value
	for _, r := range rows {
		for _, v := range r {
			if v.Column() == col {
				out = append(out, v)
			}
		}
	}
	return out
}

// readColumnPages reads every page of a column chunk and returns the cloned
// values, the number of rows seen, and the terminating error.
func readColumnPages(cc parquet.ColumnChunk, c *core.Ctx) (vals []parquet.Value, rows int64, err error) {
	pages := cc.Pages()
	defer pages.Close()
	for {
		p, err := pages.ReadPage()
		c.Step()
		if err != nil {
			return vals, rows, err
		}
		n := p.NumValues()
		buf := make([]parquet.Value, n)
		vr := p.Values()
		got := 0
		for got < int(n) {
			m, rerr := vr.ReadValues(buf[got:])
			got += m
			if rerr != nil {
				if errors.Is(rerr, io.EOF) {
					break
				}
				parquet.Release(p)
				return vals, rows, rerr
			}
			if m == 0 {
				break
			}
		}
		for i := 0; i < got; i++ {
			vals = append(vals, buf[i].Clone())
		}
		rows += p.NumRows()
		parquet.Release(p)
	}
}

// rowKey is a string under which two rows are equal exactly when gen.RowEqual
// says so.
func rowKey(row parquet.Row) string {
	var sb []byte
	for _, v := range row {
		sb = fmt.Appendf(sb, "%d.%d.%d", v.Column(), v.RepetitionLevel(), v.DefinitionLevel())
		switch {
		case v.IsNull():
			sb = append(sb, 'n')
		default:
			switch v.Kind() {
			case parquet.ByteArray, parquet.FixedLenByteArray, parquet.Int96:
				sb = fmt.Appendf(sb, "b%d:%s", len(v.ByteArray()), v.ByteArray())
			case parquet.Boolean:
				sb = fmt.Appendf(sb, "t%v", v.Boolean())
			case parquet.Int32:
				sb = fmt.Appendf(sb, "i%d", v.Int32())
			case parquet.Float:
				sb = fmt.Appendf(sb, "f%x", math.Float32bits(v.Float()))
			default:
				sb = fmt.Appendf(sb, "u%x", v.Uint64())
			}
		}
		sb = append(sb, '|')
	}
	return string(sb)
}
