package props

import "pqsim/core"

// All lists the property checks.
func All() []core.Prop {
	return []core.Prop{
		C01{},
		C07{},
		C08{},
		C09{},
		C10{},
		C11{},
		C13{},
		C14{},
		C15{},
		C16{},
		C17{},
		C18{},
		C20{},
	}
}

func ByID(id string) core.Prop {
	for _, p := range All() {
		if p.ID() == id {
			return p
		}
	}
	return nil
}
