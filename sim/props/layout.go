package props

import (
	"bytes"
	"fmt"

	"github.com/parquet-go/parquet-go"
	"github.com/parquet-go/parquet-go/encoding/thrift"
	"github.com/parquet-go/parquet-go/format"
)

// PageLoc locates one page of a written file, derived from the footer and
// the thrift page headers in the raw bytes.
type PageLoc struct {
	RowGroup  int
	Column    int
	Path      string
	Dict      bool
	DataIndex int   // index among the data pages of the chunk (-1 for the dictionary page)
	HeaderOff int64 // file offset of the page header
	BodyOff   int64 // file offset of the page body
	BodyLen   int64
	CRC       uint32
	HasCRC    bool
	FirstRow  int64 // first row (within the row group) stored in this data page
	EndRow    int64 // one past the last row that starts in this page
	RGFirst   int64 // first row of the row group in the file
	RGRows    int64
	DictEnc   bool // data page is dictionary encoded
	Type      string
}

// fileLayout walks every column chunk of a fault-free file.
func fileLayout(data []byte) ([]PageLoc, *parquet.File, error) {
	f, err := parquet.OpenFile(bytes.NewReader(data), int64(len(data)))
	if err != nil {
		return nil, nil, err
	}
	var out []PageLoc
	md := f.Metadata()
	proto := thrift.CompactProtocol{}
	rgFirst := int64(0)
	for gi, rg := range md.RowGroups {
		chunks := f.RowGroups()[gi].ColumnChunks()
		for ci, col := range rg.Columns {
			m := col.MetaData
			start := m.DataPageOffset
			if m.DictionaryPageOffset != 0 && m.DictionaryPageOffset < start {
				start = m.DictionaryPageOffset
			}
			end := start + m.TotalCompressedSize
			oi, _ := chunks[ci].OffsetIndex()
			dataIdx := 0
			for off := start; off < end; {
				r := bytes.NewReader(data[off:end])
				var h format.PageHeader
				if err := thrift.NewDecoder(proto.NewReader(r)).Decode(&h); err != nil {
					return nil, nil, fmt.Errorf("layout: page header at %d: %w", off, err)
				}
				hlen := int64(end-off) - int64(r.Len())
				loc := PageLoc{
					RowGroup: gi, Column: ci, Path: fmt.Sprint(m.PathInSchema),
					HeaderOff: off, BodyOff: off + hlen, BodyLen: int64(h.CompressedPageSize),
					CRC: uint32(h.CRC), HasCRC: h.CRC != 0,
					RGFirst: rgFirst, RGRows: rg.NumRows, DataIndex: -1, Type: h.Type.String(),
				}
				switch h.Type {
				case format.DictionaryPage:
					loc.Dict = true
					loc.FirstRow, loc.EndRow = 0, rg.NumRows
				case format.DataPage, format.DataPageV2:
					loc.DataIndex = dataIdx
					if oi != nil && dataIdx < oi.NumPages() {
						loc.FirstRow = oi.FirstRowIndex(dataIdx)
						if dataIdx+1 < oi.NumPages() {
							loc.EndRow = oi.FirstRowIndex(dataIdx + 1)
						} else {
							loc.EndRow = rg.NumRows
						}
					} else {
						loc.FirstRow, loc.EndRow = -1, -1
					}
					var enc format.Encoding
					if h.Type == format.DataPage {
						enc = h.DataPageHeader.V.Encoding
					} else {
						enc = h.DataPageHeaderV2.V.Encoding
					}
					loc.DictEnc = enc == format.RLEDictionary || enc == format.PlainDictionary
					dataIdx++
				}
				out = append(out, loc)
				off += hlen + int64(h.CompressedPageSize)
			}
		}
		rgFirst += rg.NumRows
	}
	return out, f, nil
}
