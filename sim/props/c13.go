package props

import (
	"bytes"
	"errors"
	"fmt"
	"hash/crc32"
	"io"

	"github.com/parquet-go/parquet-go"

	"pqsim/core"
	"pqsim/env"
	"pqsim/gen"
	"pqsim/tape"
)

// C13 — corruption inside a checksummed page is reported, never returned as
// data (E2: stored-byte fault enumeration).

type C13Case struct {
	Page   int    `json:"page"` // index into the file layout
	Byte   int64  `json:"byte"` // offset inside the page body
	Mask   []byte `json:"mask"` // xor mask applied from Byte on (1 byte = bit flip(s), 2-4 bytes = burst)
	Path   string `json:"path"`
	SeekTo int64  `json:"seek_to,omitempty"`
}

func (k C13Case) String() string {
	return fmt.Sprintf("page=%d byte=%d mask=%x path=%s seek=%d", k.Page, k.Byte, k.Mask, k.Path, k.SeekTo)
}

type C13Scenario struct {
	Plan       WritePlan  `json:"plan"`
	Pools      PoolPolicy `json:"pools"`
	F          gen.FOpts  `json:"file_opts"`
	Batches    []int      `json:"batches"`
	SampleSeed uint64     `json:"sample_seed"`
	MaxBytes   int        `json:"max_bytes"` // sampled byte positions per file (0 = all)
	AllBits    bool       `json:"all_bits"`
	Only       *C13Case   `json:"only,omitempty"`
	Failed     *C13Case   `json:"failed,omitempty"`
}

func (s *C13Scenario) Focus(v *core.Violation) {
	if s.Failed != nil {
		k := *s.Failed
		s.Only = &k
	}
}

type C13 struct{}

func (C13) ID() string { return "C13" }

var c13Paths = []string{"rowgroups", "reader", "typed", "pages", "seek-into", "seek-past-back", "read-dictionary", "value-reader", "async-seek-into"}

func (C13) Info() core.Info {
	return core.Info{
		Level: "fault_enumeration",
		Rule: "one run = one seeded file (writer history + options; v1/v2 pages, codecs, dictionary yes/no, optional/repeated columns) whose page bodies are located from the raw bytes (footer + thrift page headers); " +
			"enumerated: (page body byte) x (single-bit flips, 2-4 byte burst) x access path {rowgroups, reader, typed, pages, seek-into, seek-past-back, read-dictionary, value-reader}; quick samples byte positions and 2 bits per byte, thorough takes all 8 bits and more positions. " +
			"evaluations = corrupted-file executions; distinct non-trivial = distinct (file, page, byte, mask, path) tuples on pages that carry a CRC",
		Real:      []string{"parquet-go writer and every reader path (all real code from /repo)"},
		Stubs:     []string{"source io.ReaderAt (SimFile holding the corrupted image)", "destination io.Writer (SimSink)", "internal/memory.Pool (deterministic H1/H2)"},
		Assume:    []string{"page header bytes are excluded (the format does not checksum them)", "CRC-32 detects every enumerated pattern (single bits, bursts <= 32 bits) with certainty", "pages start on row boundaries (checked by the layout walk against the offset index)"},
		FaultKind: []string{"flip(bit)@byte", "burst(2-4B)@byte"},
	}
}

func (C13) Budget(tier string) core.Budget {
	if tier == "thorough" {
		return core.Budget{Runs: 6000, MaxWall: 20 * 60e9}
	}
	return core.Budget{Runs: 1200, MaxWall: 60e9}
}

func (C13) New() any { return &C13Scenario{} }

func (C13) Gen(t *tape.Tape, tier string) any {
	sc := &C13Scenario{}
	shapes := []gen.Shape{gen.ShapeFlat, gen.ShapeNested, gen.ShapeLogical, gen.ShapeDyn, gen.ShapeGen}
	sc.Plan = GenWritePlan(t, shapes, 300)
	if sc.Plan.NRows == 0 {
		sc.Plan.NRows = 1
		sc.Plan.Ops = []WOp{{Op: "write", N: 1}}
	}
	sc.Pools = GenPoolPolicy(t)
	sc.F = gen.GenFOpts(t)
	sc.Batches = genBatches(t)
	sc.SampleSeed = t.Seed()
	if tier == "thorough" {
		sc.MaxBytes = 64
		sc.AllBits = true
	} else {
		sc.MaxBytes = 10
	}
	return sc
}

type c13run struct {
	sc    *C13Scenario
	c     *core.Ctx
	sh    gen.Shape
	data  gen.Data
	good  []byte
	pages []PageLoc
	evals int
	sigs  []uint64
	base  string
}

func (C13) Run(s any, c *core.Ctx) core.Outcome {
	sc := s.(*C13Scenario)
	sc.Failed = nil
	out := core.Outcome{}
	r := &c13run{sc: sc, c: c}
	r.sh, r.data = sc.Plan.MakeData()
	sc.Pools.Install()
	ref := sc.Plan.Execute(c, nil, r.data)
	if ref.FirstErr != nil {
		out.Violation = core.Violate("C13/fault-free-write-error/"+ref.ErrOp, "%v", ref.FirstErr)
		return out
	}
	r.good = append([]byte(nil), ref.Sink.Bytes()...)
	pages, _, err := fileLayout(r.good)
	if err != nil {
		out.Violation = core.Violate("C13/layout", "cannot walk the fault-free file: %v", err)
		return out
	}
	r.pages = pages
	r.base = fmt.Sprintf("%s|%d|%d|%s|", sc.Plan.Shape, sc.Plan.RowSeed, sc.Plan.NRows, sc.Plan.W.Sig())
	out.Violation = r.enumerate()
	out.Evals = r.evals
	out.SubSigs = r.sigs
	out.Nontrivial = len(r.sigs) > 0
	out.Sample = map[string]any{"shape": sc.Plan.Shape, "rows": sc.Plan.NRows, "file_bytes": len(r.good), "pages": len(pages), "cases": r.evals, "opts": sc.Plan.W.Sig()}
	return out
}

func (r *c13run) enumerate() *core.Violation {
	sc := r.sc
	if sc.Only != nil {
		return r.run1(*sc.Only)
	}
	rng := tape.NewRng(sc.SampleSeed)
	// candidate (page, byte) positions
	type pb struct {
		p int
		b int64
	}
	var cands []pb
	total := int64(0)
	for i, p := range r.pages {
		if !p.HasCRC {
			// the reader treats a stored CRC of 0 as "absent": only a page whose
			// true checksum is 0 may legitimately look like this
			if sum := crc32.ChecksumIEEE(r.good[p.BodyOff : p.BodyOff+p.BodyLen]); sum != 0 && p.BodyLen > 0 {
				kk := C13Case{Page: i, Path: "layout"}
				sc.Failed = &kk
				return core.Violate("C13/page-written-without-checksum", "page %d (rg=%d col=%d %s, %d body bytes) carries no CRC although its checksum is 0x%08X: corruption of it can never be detected", i, p.RowGroup, p.Column, p.Path, p.BodyLen, sum)
			}
			r.c.Probe("page-with-true-crc-0-skipped")
			continue
		}
		total += p.BodyLen
	}
	if total == 0 {
		return nil
	}
	pick := func() pb {
		x := int64(rng.Uint64() % uint64(total))
		for i, p := range r.pages {
			if !p.HasCRC {
				continue
			}
			if x < p.BodyLen {
				return pb{i, x}
			}
			x -= p.BodyLen
		}
		panic("unreachable")
	}
	if sc.MaxBytes == 0 || int64(sc.MaxBytes) >= total {
		for i, p := range r.pages {
			if p.HasCRC {
				for b := int64(0); b < p.BodyLen; b++ {
					cands = append(cands, pb{i, b})
				}
			}
		}
	} else {
		// first and last byte of a few pages, dictionary pages favoured, then random bytes
		for i, p := range r.pages {
			if p.HasCRC && p.BodyLen > 0 && (p.Dict || rng.Intn(4) == 0) && len(cands) < sc.MaxBytes/2 {
				cands = append(cands, pb{i, 0}, pb{i, p.BodyLen - 1})
			}
		}
		for len(cands) < sc.MaxBytes {
			cands = append(cands, pick())
		}
	}
	for _, cd := range cands {
		if r.c.Expired() {
			break
		}
		p := r.pages[cd.p]
		var masks [][]byte
		if sc.AllBits {
			for bit := 0; bit < 8; bit++ {
				masks = append(masks, []byte{1 << bit})
			}
		} else {
			masks = append(masks, []byte{1 << rng.Intn(8)}, []byte{1 << rng.Intn(8)})
		}
		if bl := int(p.BodyLen - cd.b); bl >= 2 {
			n := 2 + rng.Intn(3)
			if n > bl {
				n = bl
			}
			m := make([]byte, n)
			for m[0] == 0 || m[n-1] == 0 {
				rng.Bytes(m)
			}
			masks = append(masks, m)
		}
		for _, m := range masks {
			for _, path := range c13Paths {
				k := C13Case{Page: cd.p, Byte: cd.b, Mask: m, Path: path}
				if !r.applicable(k) {
					continue
				}
				if path == "seek-into" || path == "async-seek-into" {
					// a row inside the affected range
					lo, hi := r.taint(p)
					k.SeekTo = lo + int64(rng.Uint64()%uint64(hi-lo))
				}
				if v := r.run1(k); v != nil {
					return v
				}
			}
		}
	}
	return nil
}

// taint returns the row range (relative to the row group) whose rows need the page.
func (r *c13run) taint(p PageLoc) (lo, hi int64) {
	if !p.Dict {
		return p.FirstRow, p.EndRow
	}
	// dictionary page: every dictionary-encoded data page of the chunk
	lo, hi = -1, -1
	for _, q := range r.pages {
		if q.RowGroup == p.RowGroup && q.Column == p.Column && !q.Dict && q.DictEnc {
			if lo < 0 || q.FirstRow < lo {
				lo = q.FirstRow
			}
			if q.EndRow > hi {
				hi = q.EndRow
			}
		}
	}
	return lo, hi
}

func (r *c13run) applicable(k C13Case) bool {
	p := r.pages[k.Page]
	lo, hi := r.taint(p)
	if lo < 0 || hi <= lo {
		return false // no row needs this page (e.g. dictionary of an all-PLAIN chunk) or no offset index
	}
	switch k.Path {
	case "read-dictionary":
		return p.Dict
	case "seek-past-back":
		return hi < p.RGRows
	}
	return true
}

func isCorrupted(err error) bool { return errors.Is(err, parquet.ErrCorrupted) }

func (r *c13run) run1(k C13Case) (v *core.Violation) {
	if k.Path == "layout" {
		return r.enumerateLayoutOnly()
	}
	defer func() {
		if p := recover(); p != nil {
			v = core.Violate("C13/panic/"+k.Path, "panic: %v%s", p, core.StackIfWanted())
		}
		if v != nil {
			kk := k
			r.sc.Failed = &kk
			pg := r.pages[k.Page]
			v.Detail = fmt.Sprintf("[corrupt %s; page: rg=%d col=%d %s dict=%v data#%d rows=[%d,%d) body=%d+%d] %s", k, pg.RowGroup, pg.Column, pg.Path, pg.Dict, pg.DataIndex, pg.FirstRow, pg.EndRow, pg.BodyOff, pg.BodyLen, v.Detail)
		}
	}()
	sc := r.sc
	p := r.pages[k.Page]
	if k.Byte < 0 || k.Byte+int64(len(k.Mask)) > p.BodyLen {
		return nil
	}
	r.evals++
	r.sigs = append(r.sigs, core.HashString(r.base+k.String()))
	r.c.Fault(map[bool]string{true: "burst", false: "flip"}[len(k.Mask) > 1])
	img := append([]byte(nil), r.good...)
	for i, m := range k.Mask {
		img[p.BodyOff+k.Byte+int64(i)] ^= m
	}
	sc.Pools.Install()
	sf := env.NewFile(r.c, img)
	sf.EOFAtEnd = sc.F.EOFAtEnd
	lo, hi := r.taint(p)
	absLo := int(p.RGFirst + lo)
	model := r.data.Rows()
	kind := "data-page"
	if p.Dict {
		kind = "dict-page"
	}
	cls := func(tag string) string { return "C13/" + tag + "/" + kind + "/" + k.Path }

	switch k.Path {
	case "rowgroups", "reader", "typed", "pages":
		res := drive(r.c, "C13", sf, sc.F, k.Path, r.sh, r.data, &batches{sizes: sc.Batches})
		if res.Wrong != nil {
			res.Wrong.Class = cls("wrong-data")
			return res.Wrong
		}
		if res.Err == nil {
			return core.Violate(cls("not-reported"), "reading every row ended without error (delivered %d rows, complete=%v) although a page body was altered", res.Delivered, res.Complete)
		}
		if !isCorrupted(res.Err) {
			return core.Violate(cls("wrong-error"), "error does not identify corruption (errors.Is(err, ErrCorrupted) is false): %v", res.Err)
		}
		if k.Path != "pages" && res.Delivered > absLo {
			return core.Violate(cls("rows-from-corrupt-page"), "%d rows delivered before the error but rows from %d on need the corrupted page", res.Delivered, absLo)
		}
		return nil
	}

	f, err := parquet.OpenFile(sf, sf.Size(), sc.F.Options()...)
	if err != nil {
		return core.Violate(cls("open-failed"), "OpenFile failed although only a page body was altered: %v", err)
	}
	rg := f.RowGroups()[p.RowGroup]
	rgModel := model[p.RGFirst : p.RGFirst+p.RGRows]
	// readFrom reads rows [from, end of row group) and returns delivered count, wrong-data violation, terminal error
	readFrom := func(rows parquet.Rows, from int64) (int, *core.Violation, error) {
		rc := &rowCursor{prop: "C13", path: k.Path, model: rgModel, pos: int(from)}
		b := &batches{sizes: sc.Batches}
		for {
			n := b.next()
			buf := make([]parquet.Row, n)
			m, err := rows.ReadRows(buf)
			r.c.Step()
			for i := 0; i < m; i++ {
				if rc.pos+i >= len(rgModel) {
					return rc.pos - int(from), core.Violate(cls("wrong-data"), "more rows than the row group holds"), nil
				}
				if d := gen.RowDiff(rgModel[rc.pos+i], buf[i]); d != "" {
					return rc.pos - int(from), core.Violate(cls("wrong-data"), "row %d of row group: %s", rc.pos+i, d), nil
				}
			}
			rc.pos += m
			if err != nil {
				return rc.pos - int(from), nil, err
			}
			if m == 0 {
				if rc.stalls++; rc.stalls > 8 {
					return rc.pos - int(from), nil, fmt.Errorf("pqsim: no progress")
				}
			} else {
				rc.stalls = 0
			}
		}
	}
	switch k.Path {
	case "seek-into":
		rows := rg.Rows()
		defer rows.Close()
		if err := rows.SeekToRow(k.SeekTo); err != nil {
			if isCorrupted(err) {
				return nil
			}
			return core.Violate(cls("wrong-error"), "SeekToRow(%d): %v", k.SeekTo, err)
		}
		n, wrong, err := readFrom(rows, k.SeekTo)
		if wrong != nil {
			return wrong
		}
		if err == nil || errors.Is(err, io.EOF) {
			return core.Violate(cls("not-reported"), "SeekToRow(%d) into the corrupted page then reading to the end delivered %d rows and ended with %v", k.SeekTo, n, err)
		}
		if !isCorrupted(err) {
			return core.Violate(cls("wrong-error"), "after SeekToRow(%d): error does not identify corruption: %v", k.SeekTo, err)
		}
		if n > 0 && !p.Dict {
			return core.Violate(cls("rows-from-corrupt-page"), "after SeekToRow(%d), %d rows were delivered before the error", k.SeekTo, n)
		}
	case "async-seek-into":
		// asynchronous read mode: rows up to the corrupted page are read, so the
		// page goroutine of the column has met the corruption while reading ahead;
		// then a seek into that page. The library's goroutines read from a plain
		// byte reader (the simulated file's event log is not theirs to write).
		fo := sc.F
		fo.Async, fo.Optimistic = true, false
		af, err := parquet.OpenFile(bytes.NewReader(img), int64(len(img)), fo.Options()...)
		if err != nil {
			return core.Violate(cls("open-failed"), "OpenFile failed although only a page body was altered: %v", err)
		}
		rows := af.RowGroups()[p.RowGroup].Rows()
		defer rows.Close()
		if lo > 1 && !p.Dict {
			// all but the last row before the page: completing the last row of a page
			// looks at the next page, which reports the corruption at once
			buf := make([]parquet.Row, 1)
			for got := int64(0); got < lo-1; {
				m, err := rows.ReadRows(buf)
				got += int64(m)
				if err != nil {
					if isCorrupted(err) {
						return nil // reported already while reading ahead
					}
					return core.Violate(cls("wrong-error"), "reading the %d rows before the corrupted page: %v", lo, err)
				}
				if m == 0 {
					break
				}
			}
		}
		if err := rows.SeekToRow(k.SeekTo); err != nil {
			if isCorrupted(err) {
				return nil
			}
			return core.Violate(cls("wrong-error"), "SeekToRow(%d): %v", k.SeekTo, err)
		}
		n, wrong, err := readFrom(rows, k.SeekTo)
		if wrong != nil {
			return wrong
		}
		if err == nil || errors.Is(err, io.EOF) {
			return core.Violate(cls("not-reported"), "asynchronous mode: %d rows read, SeekToRow(%d) into the corrupted page, then reading to the end delivered %d rows and ended with %v", lo, k.SeekTo, n, err)
		}
		if !isCorrupted(err) {
			return core.Violate(cls("wrong-error"), "after SeekToRow(%d): error does not identify corruption: %v", k.SeekTo, err)
		}
	case "seek-past-back":
		rows := rg.Rows()
		defer rows.Close()
		if err := rows.SeekToRow(hi); err != nil {
			if isCorrupted(err) {
				return nil
			}
			return core.Violate(cls("wrong-error"), "SeekToRow(%d): %v", hi, err)
		}
		n, wrong, err := readFrom(rows, hi)
		if wrong != nil {
			return wrong
		}
		if err != nil && !errors.Is(err, io.EOF) {
			if isCorrupted(err) {
				return nil // had to scan through the page: accepted
			}
			return core.Violate(cls("wrong-error"), "reading rows past the corrupted page: %v", err)
		}
		if int64(n) != p.RGRows-hi {
			return core.Violate(cls("missing-rows"), "reading from row %d past the corrupted page delivered %d of %d rows and ended cleanly", hi, n, p.RGRows-hi)
		}
		// and back
		if err := rows.SeekToRow(lo); err != nil {
			if isCorrupted(err) {
				return nil
			}
			return core.Violate(cls("wrong-error"), "SeekToRow(%d) back: %v", lo, err)
		}
		n, wrong, err = readFrom(rows, lo)
		if wrong != nil {
			return wrong
		}
		if err == nil || errors.Is(err, io.EOF) {
			return core.Violate(cls("not-reported"), "seeking back to row %d of the corrupted page and reading delivered %d rows and ended with %v", lo, n, err)
		}
		if !isCorrupted(err) {
			return core.Violate(cls("wrong-error"), "after seeking back: %v", err)
		}
	case "read-dictionary":
		cc := rg.ColumnChunks()[p.Column].(*parquet.FileColumnChunk)
		pages := cc.PagesFrom(sf)
		defer pages.Close()
		_, err := pages.ReadDictionary()
		if err == nil {
			return core.Violate(cls("not-reported"), "ReadDictionary returned no error for a corrupted dictionary page")
		}
		if !isCorrupted(err) {
			return core.Violate(cls("wrong-error"), "ReadDictionary: %v", err)
		}
	case "value-reader":
		cc := rg.ColumnChunks()[p.Column]
		vr := parquet.NewColumnChunkValueReader(cc)
		defer vr.Close()
		want := columnValues(rgModel, p.Column)
		pos := 0
		for stalls := 0; ; {
			buf := make([]parquet.Value, 37)
			m, err := vr.ReadValues(buf)
			r.c.Step()
			for i := 0; i < m; i++ {
				if pos+i >= len(want) || !gen.ValueEqual(want[pos+i], buf[i]) {
					return core.Violate(cls("wrong-data"), "value %d of column %d differs or is beyond the %d values written", pos+i, p.Column, len(want))
				}
			}
			pos += m
			if err != nil {
				if errors.Is(err, io.EOF) {
					return core.Violate(cls("not-reported"), "the value reader delivered %d of %d values and ended with io.EOF", pos, len(want))
				}
				if !isCorrupted(err) {
					return core.Violate(cls("wrong-error"), "value reader: %v", err)
				}
				return nil
			}
			if m == 0 {
				if stalls++; stalls > 8 {
					return core.Violate(cls("no-progress"), "value reader made no progress")
				}
			} else {
				stalls = 0
			}
		}
	}
	return nil
}

// enumerateLayoutOnly re-runs the writer-side checksum check (used when a
// replay is focused on it).
func (r *c13run) enumerateLayoutOnly() *core.Violation {
	for i, p := range r.pages {
		if !p.HasCRC && p.BodyLen > 0 {
			if sum := crc32.ChecksumIEEE(r.good[p.BodyOff : p.BodyOff+p.BodyLen]); sum != 0 {
				return core.Violate("C13/page-written-without-checksum", "page %d (rg=%d col=%d %s) carries no CRC although its checksum is 0x%08X", i, p.RowGroup, p.Column, p.Path, sum)
			}
		}
	}
	return nil
}
